"""C02 — decoding is total: arbitrary bytes give a value or an error, never a panic."""
import os
from .. import common as C, structs as S, valgen as V, refcodec as R

LEAN_MODULES = ["ZvtVerif.Properties.C02"]
TRANSLATED = {"structs"}      # translated tables this property consumes (a translator problem elsewhere does not break its tie)
NEEDS_RELEASE = True
ASSUMPTIONS = ["dev profile has overflow checks on, release profile off; both must answer identically",
               "allocation watchdog: bytes allocated by zvt_deserialize/zvt_parse alone <= 64 x input + 16 KiB (calibrated; the worst shipped case, zero-length `60 00` elements, needs 48 x)"]
BAD = ("panic", "died", "hang", "slow")
BOUNDARY = [0x00, 0x01, 0x06, 0x0f, 0x10, 0x1f, 0x20, 0x7f, 0x80, 0x81, 0x82, 0x83, 0x99, 0x9a, 0xa0, 0xf0, 0xf9, 0xfa, 0xfe, 0xff, 0x60, 0x34, 0x0e, 0x41]


def captures():
    d = os.path.join(C.REPO, "zvt/data")
    out = []
    for f in sorted(os.listdir(d)):
        if f.endswith(".blob"):
            out.append(open(os.path.join(d, f), "rb").read())
    return out


def valid_dt(date, time):
    """is (YYYYMMDD, HHMMSS) a date chrono accepts (year <= 262143) and a time of day?"""
    y, m, d = date // 10000, date % 10000 // 100, date % 100
    h, mi, sec = time // 10000, time % 10000 // 100, time % 100
    if not (y <= 262143 and 1 <= m <= 12 and h < 24 and mi < 60 and sec < 60):
        return False
    dim = [31, 29 if (y % 4 == 0 and y % 100 != 0) or y % 400 == 0 else 28, 31, 30, 31, 30, 31, 31, 30, 31, 30, 31][m - 1]
    return 1 <= d <= dim


def run(ctx, out):
    layout = S.load_schema(ctx.schema)
    rng = ctx.rng
    thorough = ctx.search_tier == "thorough"
    ops, kinds = [], []
    seen = set()                 # 64-bit hashes of the inputs evaluated so far (de-duplication without keeping the strings)
    first_ops, last = [], {}
    BATCH = 3000000

    def evaluate():
        """run the collected batch through implementation (dev + release builds) and model, judge it, forget it"""
        if not ops:
            return
        impl, model = ctx.pair(ops)
        rel = ctx.harness(ops, release=True)
        out.compare("dec/parse(malformed)", ops, impl, model)
        out.evaluations += len(ops) * 2
        for o, r, rr, kd in zip(ops, impl, rel, kinds):
            cls = r.split()[0] + (":" + r.split()[1].split(":")[0] if r.startswith("err") else "")
            out.count(kd + "/" + cls)
            if not r.startswith("ok"):
                rejected[0] += 1
            bad = next((x.split()[0] for x in r.split(" ; ") if x.split() and x.split()[0] in BAD), None)
            if bad or r.startswith("alloc-exceeded"):
                out.oracle_failures.append({"op": o[:400], "observed": r[-200:], "expected": "ok … | err …", "key": o[:160],
                                            "what": ("packet reader " if kd == "transport" else "decoder ") + {"panic": "panics", "died": "aborts the process", "hang": "does not return", "slow": "needs more than 5 s"}.get(bad, "allocates beyond a small multiple of its input") + f" ({kd})"})
            elif kd == "calendar-impossible" and r.startswith("ok"):
                out.oracle_failures.append({"op": o[:400], "observed": r[:200], "expected": "err …", "key": o[:160],
                                            "what": "an impossible date / time of day is accepted: a number that does not fit its field must be an error, not a silently narrowed value"})
            elif rr != r:
                out.oracle_failures.append({"op": o[:400], "observed": "release: " + rr[:160], "expected": "debug: " + r[:160], "key": o[:160],
                                            "what": f"debug and release builds decode differently ({kd}): a number that does not fit its field must be an error, not a wrapped value"})
        if not first_ops:
            first_ops.extend([ops[5], ops[len(ops) // 2][:200]])
        last["op"], last["impl"] = ops[-1][:80] + "…", impl[-1][:80]
        del ops[:], kinds[:]

    rejected = [0]
    size = [0]

    def add(op, kind):
        h = hash(op)
        if h in seen:
            return
        seen.add(h)
        ops.append(op)
        kinds.append(kind)
        size[0] += len(op)
        if len(ops) >= BATCH or size[0] >= 300_000_000:
            evaluate()
            size[0] = 0

    cmds = [s for s in layout["structs"] if s["ctrl"] is not None]
    plain = [s for s in layout["structs"] if s["ctrl"] is None]
    enums = layout["enums"]
    grid2 = [(a, b) for a in range(256) for b in range(256)] if thorough else [(a, b) for a in BOUNDARY + list(range(0, 256, 9)) for b in BOUNDARY + list(range(0, 256, 11))]
    # (a) every body of length <= 2
    for s in cmds:
        h = bytes(s["ctrl"])
        add("dec " + s["name"] + " " + (h + bytes([0])).hex(), "short")
        for a in range(256):
            add(f"dec {s['name']} {(h + bytes([1, a])).hex()}", "short")
        for a, b in grid2:
            add(f"dec {s['name']} {(h + bytes([2, a, b])).hex()}", "short")
        for k in range(0, 3):
            add(f"dec {s['name']} {C.hexs(h[:k])}", "short")      # truncated header
        add(f"dec {s['name']} {(h + bytes([0xff])).hex()}", "short")
        add(f"dec {s['name']} {(h + bytes([0xff, 0x01])).hex()}", "short")
    for s in plain:
        add(f"dec {s['name']} -", "short")
        for a in range(256):
            add(f"dec {s['name']} {a:02x}", "short")
        for a, b in grid2:
            add(f"dec {s['name']} {a:02x}{b:02x}", "short")
    for e in enums:
        hs = {tuple(layout["by_name"][v["ty"]]["ctrl"]) for v in e["variants"]}
        for h in sorted(hs):
            h = bytes(h)
            add("parse " + e["name"] + " " + (h + bytes([0])).hex(), "short")
            for a in range(256):
                add(f"parse {e['name']} {(h + bytes([1, a])).hex()}", "short")
            for a, b in (grid2 if thorough else grid2[::7]):
                add(f"parse {e['name']} {(h + bytes([2, a, b])).hex()}", "short")
    # (b)-(d) corpus of valid packets
    corpus = []      # (name, op kind, bytes)
    caps = captures()
    for b in caps:
        for s in cmds:
            if len(b) >= 2 and bytes(s["ctrl"]) == b[:2]:
                corpus.append(("dec " + s["name"], b))
        for e in enums:
            if any(bytes(layout["by_name"][v["ty"]]["ctrl"]) == b[:2] for v in e["variants"]):
                corpus.append(("parse " + e["name"], b))
    per = 40 if thorough else 6
    for s, v, b in S.gen_cases(layout, rng, per):
        if len(b) <= 400:
            corpus.append(("dec " + s["name"], b))
    # date-time carrying packets with calendar values
    rp = layout["by_name"].get("packets::tlv::ReceiptPrintoutCompletion")
    if rp:
        for date in (20231005, 20231105, 20231231, 20230229, 20240229, 20231301, 20230001, 20230100, 20230132, 99991231, 0, 10101, 4294967295, 18446744073709551615, 2147483648 * 10000 + 101, 262143 * 10000 + 1231, 262144 * 10000 + 101):
            for time in (0, 235959, 240000, 236000, 235960, 999999, 4294967295):
                payload = b"\x1f\x0e" + R.ber_len(len(R.bcd(date))) + R.bcd(date) + b"\x1f\x0f" + R.ber_len(len(R.bcd(time))) + R.bcd(time)
                add("dec " + rp["name"] + " " + (bytes([0x34]) + R.ber_len(len(payload)) + payload).hex(), "calendar" + ("" if valid_dt(date, time) else "-impossible"))
        # derived quantities that are valid only modulo a machine word: hour = 12 + k, year = 2023 + k for k = 2^8, 2^16, 2^31, 2^32, 3*2^32
        # (a decoder that narrows with `as` instead of a checked conversion accepts them)
        for k in (2 ** 8, 2 ** 16, 2 ** 31, 2 ** 32, 3 * 2 ** 32):
            for date, time in ((20231005, (12 + k) * 10000 + 3456), ((2023 + k) * 10000 + 1005, 123456), ((2023 + k) * 10000 + 1005, (12 + k) * 10000 + 3456)):
                payload = b"\x1f\x0e" + R.ber_len(len(R.bcd(date))) + R.bcd(date) + b"\x1f\x0f" + R.ber_len(len(R.bcd(time))) + R.bcd(time)
                add("dec " + rp["name"] + " " + (bytes([0x34]) + R.ber_len(len(payload)) + payload).hex(), "calendar" + ("" if valid_dt(date, time) else "-impossible"))
    # the BCD accumulator on its own: digit strings around the largest value of every integer width, incl. a final F-padded digit;
    # every string of up to two bytes for u8
    from .c17 import bcd_boundary, WIDTH
    for ty, w in WIDTH.items():
        for b in bcd_boundary(w):
            add(f"enc.de bcd {ty} {C.hexs(b)}", "bcd-boundary")
    for a in range(256):
        add(f"enc.de bcd u8 {a:02x}", "bcd-boundary")
        for b in (range(256) if thorough else BOUNDARY + [0x5f, 0x6f, 0x9f, 0x0f, 0x55, 0x56]):
            add(f"enc.de bcd u8 {a:02x}{b:02x}", "bcd-boundary")
    tails = [x for w in (1, 2, 4, 8) for x in bcd_boundary(w) if x[-1] & 15 == 15 or rng.random() < 0.05]
    for name, b in corpus:
        # the rest of the packet from some offset on replaced by such a digit string (APDU length corrected): reaches the greedy
        # BCD fields at the end of a body
        if name.startswith("dec ") and 3 < len(b) < 255 and b[2] != 0xff:
            offs = range(3, len(b) + 1) if len(b) <= 24 else sorted({rng.randrange(3, len(b) + 1) for _ in range(6)})
            for i in offs:
                for t in (tails if thorough else rng.sample(tails, 10)):
                    m = b[:i] + t
                    if len(m) - 3 < 255:
                        add(f"{name} {(m[:2] + bytes([len(m) - 3]) + m[3:]).hex()}", "bcd-tail")
        # truncations
        big = len(b) > 400 and not thorough
        for k in (range(len(b)) if not big else list(range(64)) + list(range(64, len(b), 13))):
            add(f"{name} {C.hexs(b[:k])}", "truncation")
        # single byte substitutions (thorough: all 256 values at every offset of entries up to 400 bytes and at the first 64 offsets of
        # longer ones, the boundary values at their remaining offsets)
        step = 1 if len(b) <= 80 or thorough else 3
        for i in (range(0, len(b), step) if not big else list(range(48)) + list(range(48, len(b), 37))):
            vals = range(256) if thorough and (len(b) <= 400 or i < 64) else BOUNDARY
            for x in vals:
                if x != b[i]:
                    m = bytearray(b); m[i] = x
                    add(f"{name} {bytes(m).hex()}", "substitution")
        # structure-aware: length edits, insertions of length-prefix bytes, tag splices, digit overflow, duplication
        for _ in range(60 if thorough else 12):
            m = bytearray(b)
            c = rng.randrange(7)
            i = rng.randrange(len(m)) if m else 0
            if c == 0 and m:
                m[i] = (m[i] + rng.choice([1, -1, 0x80, 0x7f])) & 255
            elif c == 1:
                m[i:i] = bytes([rng.choice([0x81, 0x82, 0xff, 0x1f, 0x83])])
            elif c == 2 and m:
                j = rng.randrange(len(m))
                m[i:i] = m[j:j + rng.randint(1, 8)]
            elif c == 3 and m:
                del m[i:i + rng.randint(1, 6)]
            elif c == 4:
                m[i:i] = bytes([0x99] * rng.randint(1, 12))
            elif c == 5 and len(m) > 3:
                m[2] = rng.choice([0, 1, len(m) - 3, len(m) - 2, len(m) - 4, 0xfe, 0xff]) & 255
            else:
                m += bytes(rng.randrange(256) for _ in range(rng.randint(1, 5)))
            add(f"{name} {C.hexs(bytes(m))}", "mutation")
    # large inputs: allocation must stay linear
    for name, unit in (("packets::StatusInformation", b"\x60\x00"), ("packets::PrintTextBlock", b"\x07\x00"), ("feig::packets::WriteFile", b"\x2d\x00")):
        s = layout["by_name"].get(name)
        if s:
            inner = unit * (32000 if thorough else 6000)
            if name.endswith("PrintTextBlock"):
                inner = b"\x25" + R.ber_len(len(inner)) + inner
            tl = b"\x06" + R.ber_len(len(inner)) + inner
            body = (b"\x00\x00\x00" if name.endswith("WriteFile") else b"") + tl
            add(f"dec@1 {name} {(bytes(s['ctrl']) + R.length_prefix('adpu', body) + body).hex()}", "large")      # @1: log records not evaluated
    # transport level (zvt/src/io.rs): headers announcing 0..3, 250..260 and 65500..65535 body bytes, with the whole body, half of it, or none
    pl = "sequences::PrintSystemConfigurationResponse"
    for n in list(range(0, 4)) + list(range(250, 261)) + list(range(65500, 65536)) + [32767, 32768, 65280]:
        body = bytes([0x41]) * n
        hdr = bytes([0x06, 0xd1]) + R.length_prefix("adpu", body)
        for got in sorted({n, n // 2, 0}):
            add(f"read {pl} {C.hexs(hdr)}|{C.hexs(body[:got]) if got else '-'}".replace("|-", ""), "transport")
    for a in (0x00, 0x01, 0xfe, 0xff):
        for b in (0x00, 0x01, 0xfa, 0xfb, 0xfc, 0xfd, 0xfe, 0xff):
            add(f"read {pl} 06d1ff{a:02x}{b:02x}", "transport")
            add(f"read {pl} 06d1ff{a:02x}|{b:02x}4141", "transport")
    evaluate()
    out.nontrivial = rejected[0]
    out.rule = (f"every body of length <= 2 for all {len(cmds)} command decoders, {len(plain)} container decoders and {len(enums)} reply parsers (length 2: {'all 65536' if thorough else 'a 52x47 boundary grid'}); "
                f"corpus = {len(caps)} captured blobs + {per} canonical packets per type: every truncation, single-byte substitutions ({'all 256' if thorough else '24 boundary'} values per offset), structure-aware mutations "
                "(length edits, 81/82/FF/1F insertions, splices, deletions, 99.. digit runs, APDU length edits, the tail replaced by a BCD digit string around the largest value of an integer width), the BCD decoder on its own on such strings for every width and on every 1-2-byte string for u8, calendar values (incl. hours / years that are valid only modulo 2^8 .. 2^32), 64 KiB inputs; the packet reader (io.rs) on headers announcing 0..3, 250..260, 65500..65535 bytes with full / half / no body; dev (overflow checks) and release builds answer identically; "
                "allocation/time watchdog. non-trivial = distinct inputs that are rejected with an error")
    out.samples = first_ops + [last]
