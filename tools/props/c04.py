"""C04 — packets are read from a byte stream exactly at APDU boundaries."""
import itertools
from .. import common as C, structs as S, valgen as V, refcodec as R

LEAN_MODULES = ["ZvtVerif.Properties.C04"]
TRANSLATED = {"structs"}      # translated tables this property consumes (a translator problem elsewhere does not break its tie)
ASSUMPTIONS = ["tokio's read_exact; the in-memory reader returns Pending (and wakes) between chunks; `read@D`: D virtual seconds pass between two chunks (paused clock)",
               "the Lean model carries chunk-independence and framing; the executor is exercised by the harness only"]


def chunkings(n, rng, limit):
    """cut positions for a stream of n bytes: all 2^(n-1) if small, else random ones"""
    if n <= 1:
        return [()]
    if 2 ** (n - 1) <= limit:
        return [tuple(i + 1 for i in range(n - 1) if (m >> i) & 1) for m in range(2 ** (n - 1))]
    out = {(), tuple(range(1, n))}
    while len(out) < limit:
        k = rng.randint(1, min(n - 1, 8))
        out.add(tuple(sorted(rng.sample(range(1, n), k))))
    return sorted(out)


def cut(b, cuts):
    parts, prev = [], 0
    for c in cuts:
        parts.append(b[prev:c]); prev = c
    parts.append(b[prev:])
    return "|".join(C.hexs(p) for p in parts)


def run(ctx, out):
    spec = S.load_schema(ctx.schema)
    rng = ctx.rng
    thorough = ctx.search_tier == "thorough"
    g = V.Gen(spec, rng)
    ops, want, kinds = [], [], []
    enum = next(e for e in spec["enums"] if e["name"] == "sequences::AuthorizationResponse")
    variants = [(i, v["name"], spec["by_name"][v["ty"]]) for i, v in enumerate(enum["variants"])]

    def packet():
        i, n, s = rng.choice(variants)
        for _ in range(30):
            v = g.struct(s, rng.choice([0.3, 0.7, 1.0]))
            b = V.fits(spec, s, v)
            if b is not None and len(b) < 60:
                return b, f"ok {i} {n} {V.show(spec, {'k': 'struct', 'name': s['name']}, v)} n={len(b)}"
        raise RuntimeError("no packet")

    # (1) short streams: every chunking, every end-of-stream position
    streams = []
    for _ in range(12 if thorough else 4):
        k = rng.randint(1, 3)
        pk = [packet() for _ in range(k)]
        streams.append(pk)
    ack = (bytes([0x80, 0, 0]), None)
    for pk in streams:
        full = b"".join(p for p, _ in pk)
        for end in range(len(full) + 1):
            s = full[:end]
            # expected outcomes: complete packets, then eof with the dangling byte count
            exp, pos = [], 0
            for p, o in pk:
                if pos + len(p) <= end:
                    exp.append(o); pos += len(p)
                else:
                    break
            exp.append(f"err io:eof n={end - pos}")
            for cuts in chunkings(len(s), rng, 2048 if (thorough and len(s) <= 12) else (64 if len(s) <= 7 else 6)):
                ops.append(f"read {enum['name']} {cut(s, cuts)}")
                want.append(" ; ".join(exp))
                kinds.append("chunking")
            # the same stream with PAUSES between the chunks (6 and 61 virtual seconds): cuts inside headers, lengths and bodies
            for pause in (6, 61):
                for cuts in chunkings(len(s), rng, 12 if len(s) > 7 else 32)[:12 if not thorough else 40]:
                    ops.append(f"read@{pause} {enum['name']} {cut(s, cuts)}")
                    want.append(" ; ".join(exp))
                    kinds.append("chunking-with-pauses")
    # (2) longer streams incl. packets that do not parse (foreign control field), random chunkings
    for _ in range(300 if thorough else 60):
        pk = []
        for _k in range(rng.randint(2, 8)):
            if rng.random() < 0.2:
                body = bytes(rng.randrange(256) for _ in range(rng.randint(0, 5)))
                p = bytes([0x77, rng.randrange(256), len(body)]) + body
                pk.append((p, f"err wrongTag:0 n={len(p)}"))
            else:
                pk.append(packet())
        full = b"".join(p for p, _ in pk)
        tail = bytes(rng.randrange(256) for _ in range(rng.choice([0, 0, 1, 2])))
        if len(tail) >= 3:
            tail = tail[:2]
        s = full + tail
        exp = [o for _, o in pk] + [f"err io:eof n={len(tail)}"]
        for cuts in chunkings(len(s), rng, 8):
            ops.append(f"read {enum['name']} {cut(s, cuts)}")
            want.append(" ; ".join(exp))
            kinds.append("long")
    # (2b) packets with the extended (5 byte) header: a read boundary / end of stream at every position of the header
    for n in (255, 256, 299, 700):
        body = bytes([0x40]) + bytes(rng.randint(0x41, 0x5a) for _ in range(n - 1))
        p = bytes([0x06, 0xd1]) + R.length_prefix("adpu", body) + body
        shown = "ok 2 PrintLine {attribute=64 text=s:" + body[1:].hex() + "} n=" + str(len(p))
        nxt, nxt_o = packet()
        s = p + nxt + p
        exp = " ; ".join([shown, nxt_o, shown, "err io:eof n=0"])
        for c1 in range(1, 9):
            ops.append(f"read {enum['name']} {cut(s, (c1,))}"); want.append(exp); kinds.append("ext-header")
            ops.append(f"read {enum['name']} {cut(s, (c1, len(p) + len(nxt) + c1))}"); want.append(exp); kinds.append("ext-header")
        ops.append(f"read {enum['name']} {cut(s, tuple(range(1, 12)))}"); want.append(exp); kinds.append("ext-header")
        for end in list(range(0, 9)) + [len(p) - 1, len(p) + 2]:
            for cuts in ((), tuple(range(1, min(end, 9)))):
                t = s[:end]
                e2 = ([shown] if end >= len(p) else []) + [f"err io:eof n={end if end < len(p) else end - len(p)}"]
                ops.append(f"read {enum['name']} {cut(t, cuts)}"); want.append(" ; ".join(e2)); kinds.append("ext-header-eof")
    # (3) header agreement: body lengths on both sides of the 254/255 switch and up to 65535
    pl = "sequences::PrintSystemConfigurationResponse"
    lens = list(range(0, 600)) + list(range(65526, 65536)) + [32767, 32768, 1000, 1023, 1024, 4095, 4096, 4097, 8192, 16384, 61440]
    if thorough:
        lens = list(range(0, 65536, 1))
    for n in lens:
        body = bytes([0x41]) * n
        p = bytes([0x06, 0xd1]) + R.length_prefix("adpu", body) + body
        cuts = tuple(sorted(set(c for c in (2, 3, 5, len(p) - 1) if 0 < c < len(p))))
        ops.append(f"read {pl} {cut(p + bytes([0x06]), cuts)}")
        if n == 0:
            first = f"err incomplete n={len(p)}"
        else:
            first = "ok 0 PrintLine {attribute=65 text=s:" + C.hexs(b"A" * (n - 1)) + "} n=" + str(len(p))
        want.append(first + " ; err io:eof n=1")
        kinds.append("header")
        if n > 0:
            # the WRITER: the packet the reader has just been given, decoded and written again by the real serialiser
            # (`write_packet` = `zvt_serialize` + `write_all`), must come back with the same 3- / 5-byte header
            ops.append(f"dec packets::PrintLine {C.hexs(p)}")
            want.append("ok {attribute=65 text=s:" + C.hexs(b"A" * (n - 1)) + "} rem=- reenc=" + C.hexs(p))
            kinds.append("header")
    impl, model = ctx.pair(ops)
    out.compare("read", ops, impl, model)
    out.evaluations = len(ops)
    for o, r, w, kd in zip(ops, impl, want, kinds):
        out.count(kd)
        out.nontrivial.add(o)
        if r != w:
            i = next((j for j in range(min(len(r), len(w))) if r[j] != w[j]), min(len(r), len(w)))
            out.oracle_failures.append({"op": o[:300], "observed": "…" + r[max(0, i - 60):i + 120], "expected": "…" + w[max(0, i - 60):i + 120], "key": o[:120],
                                        "what": "a chunked stream of packets is not returned packet by packet with exact consumption / a truncated packet is not an error" if kd != "header" else "writer's length header and reader's interpretation disagree"})
    out.rule = ("streams of 1-3 canonical reply packets: every end-of-stream position x every chunking (all 2^(L-1) for short prefixes, sampled above) with a Pending between chunks; "
                "60 longer streams with unparsable packets and dangling bytes x 8 chunkings; header agreement (reader on reference headers, and the real writer on the decoded packet) for body lengths 0..599, powers of two and page multiples, 65526..65535 (thorough: all 0..65535); chunkings also with pauses of 6 s and 61 s between chunks. "
                "Expected outcomes (packet values, bytes consumed per read, eof position) computed independently; implementation = model = expectation. non-trivial = distinct (stream, chunking)")
    out.samples = [ops[3][:200], {"op": ops[-1][:60] + "…", "impl": impl[-1][-60:]}]
