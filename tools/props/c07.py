"""C07 — transaction tokens map one-to-one onto open pre-authorisations."""
import itertools
from .. import common as C, structs as S, clientgen as G

LEAN_MODULES = ["ZvtVerif.Properties.C07", "ZvtVerif.Properties.C07R", "ZvtVerif.Properties.Traffic"]
NEEDS_RELEASE = True
TRANSLATED = {"structs", "sequences", "errors"}      # translated tables this property consumes (a translator problem elsewhere does not break its tie)
ASSUMPTIONS = ["fault-free transport (faults: C09/C10); the simulated terminal answers from per-command FIFO tables",
               "the abstract specification tools/clientgen.py:Abs (token -> receipt map) is the oracle; requests are assembled by the independent reference encoder"]


def run_histories(ctx, out, cases, what, gap=None, release=False):
    """cases: list of (cfg, calls, queues, tserial, ttid). Compares implementation, model and abstract specification.
    `gap`: the terminal waits that many virtual seconds before each item it sends (slow but talking terminal).
    Implementation = model exactly (time stamps included); against the specification the time stamps are removed:
    gaps shorter than the per-packet time-out must not change any result or any byte sent."""
    import re
    spec = S.load_spec()
    ops, want = [], []
    for cfg, calls, queues, tserial, ttid in cases:
        a = G.Abs(spec, cfg, queues, tserial, ttid)
        res = []
        for c in calls:
            f = c.split(":")
            if f[0] == "new":
                res.append(a.new())
            elif f[0] == "configure":
                res.append(a.configure())
            elif f[0] == "begin":
                res.append(a.begin(bytes.fromhex(f[1]).decode()))
            elif f[0] == "cancel":
                res.append(a.cancel(bytes.fromhex(f[1]).decode()))
            elif f[0] == "commit":
                res.append(a.commit(bytes.fromhex(f[1]).decode(), int(f[2])))
            elif f[0] == "readcard":
                res.append(a.read_card(classify_status))
        ops.append(G.op_line(cfg, calls, G.script_str(cfg, queues, None, None, tserial, ttid) + (f" gap={gap}" if gap else "")))
        want.append(" | ".join(r + "@0" for r in res) + " || c0:" + ",".join(["open@0"] + G.expected_log(a.tx) + ["close@0"]))
    impl, model = ctx.pair(ops)
    out.compare("client(history)" + (" slow terminal" if gap else ""), ops, impl, model)
    if release:
        # the same histories through the RELEASE build of the client (no overflow checks, no debug assertions): a client whose
        # behaviour depends on the build profile answers differently there
        rel = ctx.harness(ops, release=True)
        for o, r, rr, w in zip(ops, impl, rel, want):
            if rr != r and rr != "unanswered":
                out.oracle_failures.append({"op": o, "observed": rr[:600], "expected": r, "release": True, "note": "observed = release build, expected = dev build", "key": o[:300],
                                            "what": f"{what}: the release build of the client (no overflow checks / debug assertions) does not behave like the dev build"})
        out.count("also in the release build", len(ops))
    if gap:
        impl = [re.sub(r"@\d+", "@0", x) for x in impl]
    out.evaluations += len(ops)
    for o, r, w in zip(ops, impl, want):
        out.nontrivial.add(o)
        if r != w:
            ri, wi = r.split(" || ")[0], w.split(" || ")[0]
            if ri != wi:
                why = "call results differ from the abstract token map"
                obs, exp = ri, wi
            else:
                rl, wl = r.split(" || ")[-1].split(","), w.split(" || ")[-1].split(",")
                k = next((i for i in range(min(len(rl), len(wl))) if rl[i] != wl[i]), min(len(rl), len(wl)))
                why = f"traffic differs from the specification at packet #{k}"
                obs, exp = ",".join(rl[max(0, k - 1):k + 2]), ",".join(wl[max(0, k - 1):k + 2])
            out.oracle_failures.append({"op": o, "observed": obs[:500], "expected": exp[:500], "key": o[:300], "what": f"{what}: {why}"})
    return ops, impl


LITERAL_C18 = True     # oracle follows the property text; the pinned code deviates for lists whose first entry has no id (finding D9)


def classify_status(pkt):
    """membership / bank classification from a StatusInformation packet built by Packets.status (oracle of C18)"""
    body = pkt[3:] if pkt[2] != 0xff else pkt[5:]
    # find the TLV container (tag 06) - it is the last field
    i = 0
    while i < len(body):
        t = body[i]
        if t == 0x06:
            break
        if t in G.BMP:
            i += 1 + G.BMP[t]
        elif t in (0x22, 0x23, 0x8b):
            i += 3 + (body[i + 1] & 15) * 10 + (body[i + 2] & 15)
        elif t in (0x3c, 0x60):
            i += 4 + (body[i + 1] & 15) * 100 + (body[i + 2] & 15) * 10 + (body[i + 3] & 15)
        else:
            return "err incomplete"
    if i >= len(body):
        return "err incomplete"
    def ber(b, j):
        if b[j] < 128: return b[j], j + 1
        if b[j] == 0x81: return b[j + 1], j + 2
        return b[j + 1] * 256 + b[j + 2], j + 3
    n, j = ber(body, i + 1)
    tlv = body[j:j + n]
    uid, subs = None, []
    j = 0
    while j < len(tlv):
        tag = tlv[j]; j += 1
        if tag in (0x1f, 0xff):
            tag = tag * 256 + tlv[j]; j += 1
        n, j = ber(tlv, j)
        val = tlv[j:j + n]; j += n
        if tag == 0x4c:
            uid = val
        elif tag == 0x60:
            # application: 41 card type, 43 application id
            k, app = 0, None
            has_app = False
            while k < len(val):
                st = val[k]; m, k2 = ber(val, k + 1)
                if st == 0x43:
                    has_app = True
                k = k2 + m
            subs.append(has_app)
    if subs and (any(subs) if LITERAL_C18 else True):
        # specification (C18): a listed payment application (an entry carrying an application id) => bank card
        if LITERAL_C18:
            return "ok bank"
        return "ok bank" if subs[0] else "err other:" + b"Unknown card type".hex()
    if uid is not None:
        u = uid.hex().upper()
        if len(u) > 14:
            u = u[-14:]
            if u.startswith("000000"):
                u = u[6:]
        return "ok member:" + G.hx(u.encode())
    return "err incomplete"


def tok(t):
    return t.encode().hex()


def run(ctx, out):
    spec = S.load_spec()
    P = G.Packets(spec)
    rng = ctx.rng
    thorough = ctx.search_tier == "thorough"
    # one short token and two long ones that agree on their first 24 characters
    tokens = ["a", "ORDER-2024-11-05-000123-A", "ORDER-2024-11-05-000123-B"]
    begin_out = {"ok1": [P.status(receipt_no=11, result_code=0), P.completion()],
                 "ok2": [P.status(receipt_no=7, result_code=0), P.intermediate(), P.status(receipt_no=4242, result_code=0), P.completion()],
                 "abort": [P.abort(0x6c)], "noreceipt": [P.status(result_code=0), P.completion()],
                 # a receipt number is reported, then the terminal aborts after all: the call fails and opens nothing
                 "receipt_abort": [P.status(receipt_no=77, result_code=0), P.abort(0x6c)]}
    # aborts may name a receipt number (ZVT 2.10.1: "pre-authorisation not found", BMP 87 = a pending one): the first / second receipt
    # handed out in this history — i.e. usually ANOTHER open token's — must not redirect the call or re-open anything
    fin_out = {"ok": [P.status(result_code=0, amount=100, trace_number=7), P.completion()], "abort": [P.pr_abort(0xb4)],
               "abort_r1": [P.pr_abort(0xb8, 11)], "abort_r2": [P.pr_abort(0xb8, 4242)]}
    can_out = {"ok": [P.completion()], "abort": [P.pr_abort(0xb5)], "abort_r1": [P.pr_abort(0xb8, 11)], "abort_r2": [P.pr_abort(0xb8, 4242)]}
    letters = []
    for t in tokens:
        for o in ("ok1", "ok2", "abort", "noreceipt", "receipt_abort"):
            letters.append((f"begin:{tok(t)}", "0622", begin_out[o]))
        for o in ("ok", "abort", "abort_r1", "abort_r2"):
            letters.append((f"commit:{tok(t)}:100", "0623", fin_out[o]))
            letters.append((f"cancel:{tok(t)}", "0625", can_out[o]))
    depth = 4 if thorough else 3
    cases = []
    receipts = [11, 4242, 9999, 1, 305]
    def mk(hist, mx):
        queues = {"0622": [], "0623": [], "0625": []}
        calls = ["new"]
        nb = 0
        for call, kind, reply in hist:
            if kind == "0622" and reply and reply[0][:2] != b"\x06\x1e" and reply[-1][:2] != b"\x06\x1e" and G.status_field(reply[-2] if len(reply) > 1 else reply[0], 0x87, 2) is not None:
                # give every successful reservation its own receipt number
                r = receipts[nb % len(receipts)]; nb += 1
                two = sum(1 for x in reply if x[:2] == b"\x04\x0f" and G.status_field(x, 0x87, 2) is not None) >= 2
                # "ok2": the terminal first reports another receipt number, then the one the reservation completes under (the latest counts)
                reply = ([P.status(receipt_no=7000 + nb, result_code=0), P.intermediate()] if two else []) + [P.status(receipt_no=r, result_code=0), P.completion()]
            queues[kind].append(reply)
            calls.append(call)
        return (G.default_cfg(max=mx), calls, queues, None, None)
    hists = list(itertools.product(letters, repeat=depth)) if depth <= 3 else None
    if hists is None:
        hists = [tuple(rng.choice(letters) for _ in range(depth)) for _ in range(60000)]
    for d in range(1, depth):
        hists += list(itertools.product(letters, repeat=d))
    if not thorough and len(hists) > 6000:
        # keep all histories up to depth 2 and a seeded sample of depth 3 in the quick tier
        small = [h for h in hists if len(h) <= 2]
        big = [h for h in hists if len(h) > 2]
        hists = small + rng.sample(big, 5000)
    for h in hists:
        for mx in ((0, 1, 2, 3) if len(h) <= 2 or thorough else (rng.choice([1, 2]), rng.choice([0, 2, 3]))):
            cases.append(mk(h, mx))
    # random walks to depth 40 biased towards meaningful histories
    for _ in range(400 if thorough else 60):
        mx = rng.randint(1, 3)
        h = []
        opened = set()
        for _k in range(rng.randint(10, 40)):
            t = rng.choice(tokens)
            if t in opened and rng.random() < 0.7:
                o = rng.choice(["commit", "cancel"])
                l = [x for x in letters if x[0].startswith(f"{o}:{tok(t)}")]
                x = rng.choice(l)
                if x[2][0][:2] != b"\x06\x1e" or True:
                    opened.discard(t)
            else:
                x = rng.choice([x for x in letters if x[0].startswith("begin:" + tok(t))])
                if x[2][0][:2] != b"\x06\x1e" and len(x[2]) > 1 and len(opened) < mx:
                    opened.add(t)
            h.append(x)
        cases.append(mk(tuple(h), mx))
    # tokens a client may well use that are related through the wire format's own constants and conventions: the BMP-60 prefix "AC" that is
    # put in front of every token (a token that itself starts with it, the rest of it, the prefix alone, the empty token), letter case,
    # trailing blank / NUL (the text codec strips trailing NULs on the way back — the map must not). Each is its own key.
    n_conf = 0
    for fam in (["ACa", "a", "AC"], ["", "AC", "ACAC"], ["a", "A", "a "], ["a", "a\0", "\0a"]):
        fl = []
        for t in fam:
            fl.append((f"begin:{tok(t)}", "0622", begin_out["ok1"]))
            fl.append((f"commit:{tok(t)}:100", "0623", fin_out["ok"]))
            fl.append((f"cancel:{tok(t)}", "0625", can_out["ok"]))
        fh = list(itertools.product(fl, repeat=3)) + list(itertools.product(fl, repeat=2))
        if not thorough:
            fh = [h for h in fh if len(h) == 2] + rng.sample([h for h in fh if len(h) == 3], 250)
        for h in fh:
            cases.append(mk(h, rng.choice([2, 3])))
            n_conf += 1
    out.count("confusable-token histories", n_conf)
    ops, impl = run_histories(ctx, out, cases, "begin/commit/cancel history", release=True)
    # the same histories against a slow but talking terminal (14 virtual seconds before every packet): nothing may change
    slow = rng.sample(cases, min(len(cases), 600 if thorough else 150))
    sops, _ = run_histories(ctx, out, slow, "begin/commit/cancel history, slow terminal", gap=14)
    out.count("slow-terminal", len(sops))
    out.rule = (f"call histories over three tokens (one short, two long ones sharing a 24-character prefix) x terminal outcomes (begin: receipt issued / aborted / completed without receipt / receipt reported and then aborted; commit, cancel: completed / aborted / aborted naming the receipt number of the first or second reservation of the history): all histories up to depth 2 x max 0..3, "
                f"{'all' if thorough else '5000 sampled'} of depth {depth}, random walks to depth 40; histories over token families related through the wire format (the BMP-60 prefix AC: ACa / a / AC / empty / ACAC; letter case; trailing blank or NUL); the real Feig client against the simulated terminal must return exactly the results of the abstract token map and send exactly "
                "the specified packets (refused calls: none); implementation = model = abstract specification. non-trivial = distinct (max, history, outcomes)")
    out.samples = [ops[5][:400], {"op": ops[-1][:200], "impl": impl[-1][:300]}]
