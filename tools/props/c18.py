"""C18 — card identity is a fixed function of the data the terminal reports."""
from .. import common as C, structs as S, clientgen as G
from .c07 import run_histories, classify_status

LEAN_MODULES = ["ZvtVerif.Properties.C18"]
TRANSLATED = {"structs", "sequences", "errors"}      # translated tables this property consumes (a translator problem elsewhere does not break its tie)
ASSUMPTIONS = ["fault-free transport", "python oracle classify_status is the specification of the classification"]


def run(ctx, out):
    spec = S.load_spec()
    P = G.Packets(spec)
    rng = ctx.rng
    thorough = ctx.search_tier == "thorough"
    replies = []
    # abort codes: all 256
    for code in range(256):
        replies.append([P.intermediate()] * (code % 3 if code % 16 else (19, 20, 21, 40)[code // 16 % 4]) + [P.abort(code)])
    # UIDs: absent / 0..20 bytes, all-zero, 000000-prefixed, zero runs; application lists
    uids = [None, b""]
    for n in range(1, 21):
        uids += [bytes(rng.randrange(256) for _ in range(n)), bytes(n), bytes([0xab] * n), bytes(max(0, n - 1)) + b"\xab"]
        for z in range(1, n):
            uids.append(bytes(rng.randrange(1, 256) for _ in range(n - z - 1)) + bytes(z) + b"\xab" if n - z - 1 >= 0 else bytes(n))
            uids.append(bytes([0x11] * (n - z)) + bytes(z))
    if thorough:
        for _ in range(3000):
            n = rng.randint(0, 20)
            uids.append(bytes(rng.choice([0, 0, 0, rng.randrange(256)]) for _ in range(n)))
    sub_with = {"card_type": None, "application_id": "a0000000041010"}
    sub_with2 = {"card_type": "0005", "application_id": "a000000003"}
    sub_without = {"card_type": "0005", "application_id": None}
    sub_empty = {"card_type": None, "application_id": None}
    sublists = [[], [sub_with], [sub_with, sub_without], [sub_with2, sub_with]]
    # lists whose first entry has no application id: the pinned code answers "Unknown card type" (known finding D9)
    odd = [[sub_without], [sub_empty], [sub_without, sub_with]]
    for uid in uids:
        for subs in ([[]] if rng.random() < 0.7 else sublists):
            tlv = {"uuid": None if uid is None else uid.hex(), "subs": subs}
            k = rng.choice([0, 1, 2, 3, rng.randint(0, 3), 19, 20, 21, 64]) if rng.random() < 0.15 else rng.randint(0, 3)
            replies.append([P.intermediate(rng.randrange(256)) for _ in range(k)] + [P.status(result_code=0, tlv=tlv)])
    for subs in sublists[1:] + odd:
        for uid in (None, b"\x01\x02\x03", bytes(10)):
            replies.append([P.status(result_code=0, tlv={"uuid": None if uid is None else uid.hex(), "subs": subs})])
    replies.append([P.status(result_code=0)])                      # no TLV container at all
    replies.append([P.intermediate(), P.intermediate()])           # never a final packet is not fault-free: skipped below
    cases = []
    for r in replies:
        if r[-1][:2] == b"\x04\xff":
            continue
        cfg = G.default_cfg(timeout=rng.choice([0, 1, 15, 253, 254, 255]))
        cases.append((cfg, ["new", "readcard"], {"06c0": [r]}, None, None))
    # several presentations on the same client: each result is a function of THAT presentation's data only
    outcomes = [[P.status(result_code=0, tlv={"uuid": "04a1b2c3", "subs": []})], [P.status(result_code=0, tlv={"uuid": "0102030405060708", "subs": []})],
                [P.status(result_code=0, tlv={"uuid": None, "subs": [sub_with]})], [P.abort(0x6c)], [P.abort(0x64)], [P.status(result_code=0)],
                [P.intermediate(), P.status(result_code=0, tlv={"uuid": None, "subs": []})]]
    for a1 in outcomes:
        for a2 in outcomes:
            cases.append((G.default_cfg(), ["new", "readcard", "readcard"], {"06c0": [a1, a2]}, None, None))
    for _ in range(40):
        seq = [rng.choice(outcomes) for _ in range(rng.randint(3, 5))]
        cases.append((G.default_cfg(), ["new"] + ["readcard"] * len(seq), {"06c0": seq}, None, None))
    ops, impl = run_histories(ctx, out, cases, "read_card")
    # a card is read; at the next presentation the terminal reports NOTHING final on any of the 20 attempts (an intermediate status,
    # then silence): no status data, hence no card — the earlier card must not be reported again (implementation = model, and an
    # explicit oracle on the result)
    stale_ops = []
    for first in outcomes[:3]:
        for t in (15, 0):
            cfg = G.default_cfg(timeout=t)
            q = {"06c0": [first] + [[P.intermediate()]] * 20}
            stale_ops.append(G.op_line(cfg, ["new", "readcard", "readcard"], G.script_str(cfg, q)))
    simpl, smodel = ctx.pair(stale_ops)
    out.compare("client(history) nothing reported", stale_ops, simpl, smodel)
    out.evaluations += len(stale_ops)
    for o, r in zip(stale_ops, simpl):
        out.nontrivial.add(o)
        res = r.split(" || ")[0].split(" | ")
        if len(res) != 3 or not res[2].startswith("err "):
            out.oracle_failures.append({"op": o, "observed": r[:300], "expected": "… | err …", "key": o[:300],
                                        "what": "read_card reports a card although the terminal reported no status information for this presentation"})
    # a slow but talking terminal: 3 virtual seconds before every packet, 7..30 intermediate statuses before the card data / the abort, so
    # the final reply arrives long after read_card_timeout + 2 s although every single gap is far below it (implementation vs specification)
    slow = []
    for k in (7, 8, 12, 20, 30):
        for fin in (P.status(result_code=0, tlv={"uuid": "0102030405", "subs": []}), P.status(result_code=0, tlv={"uuid": None, "subs": [sub_with]}),
                    P.abort(0x6c), P.abort(0x64)):
            for t in (15, 5, 255):      # the first item takes two gaps (acknowledgement, then the first status): 6 s < t + 2
                slow.append((G.default_cfg(timeout=t), ["new", "readcard"], {"06c0": [[P.intermediate(rng.randrange(256)) for _ in range(k)] + [fin]]}, None, None))
    run_histories(ctx, out, slow, "read_card with a slow terminal (3 s before every packet)", gap=3)
    # finding D9: an application list whose FIRST entry carries no application id is answered with the error
    # "Unknown card type" by the code, where the property text asks for bank (an id further down) / membership id
    for f in out.oracle_failures:
        if "r:06c0=" in f["op"] and f["observed"].endswith("err other:" + b"Unknown card type".hex() + "@0"):
            f["key"] = "D9:first-listed-application-without-application-id " + f["op"][-120:]
            f["what"] = "read_card: application list whose first entry has no application id => error 'Unknown card type' instead of bank card / membership id"
    # determinism: identical for every presentation of the same card (implementation alone)
    seen = {}
    for o, r in zip(ops, impl):
        if "; new readcard ;" not in o:
            continue          # histories of several presentations are judged against the specification above
        key = o.split("r:06c0=")[1].split("+")[-1] if "r:06c0=" in o else None
        res = r.split(" | ")[1].split("@")[0] if " | " in r else r
        if key in seen and seen[key] != res:
            out.oracle_failures.append({"op": o, "observed": res, "expected": seen[key], "key": o[:200], "what": "the same status information was classified differently on another presentation"})
        seen[key] = res
    out.rule = ("read_card against status-information replies: UID absent / empty / 1..20 bytes (random, all-zero, zero runs of every length before the last byte, 000000-prefixed), application lists absent / with / without application ids, "
                "0..3 (and in a sample 19, 20, 21, 40, 64) preceding intermediate statuses; all 256 abort codes; result must equal the specification (bank iff the first listed application carries an id; otherwise upper-case hex UID, last 14 digits, one leading 000000 dropped; "
                "6C => no card; other abort => error) and be identical for identical status data; 49 + 40 histories of several presentations on one client (each result from its own data), a presentation for which nothing final is reported after an earlier card. implementation = model = specification; additionally a slow terminal (3 s before every packet, 7..30 intermediate statuses, time-outs 5/15/255 s): implementation = specification")
    out.samples = [ops[300][:400], {"op": ops[-1][:200], "impl": impl[-1][:300]}]
