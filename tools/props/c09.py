"""C09 — a connection that saw a failure is never reused; fresh ones are vetted."""
from .. import common as C, structs as S, clientgen as G
from .c07 import tok, classify_status

LEAN_MODULES = ["ZvtVerif.Properties.C09", "ZvtVerif.Properties.Traffic"]
TRANSLATED = {"structs", "sequences", "errors"}      # translated tables this property consumes (a translator problem elsewhere does not break its tie)
ASSUMPTIONS = ["simulated terminal with a fault table keyed by (connection, item index); time = tokio's paused clock",
               "oracle: per-connection byte log of the simulated terminal"]

HISTORIES = [
    (["new", "readcard", "readcard"], 1),
    (["new", "begin:61", "commit:61:100", "readcard"], 1),
    (["new", "begin:61", "cancel:61", "begin:62"], 1),
    (["new", "begin:61", "begin:62", "commit:61:5", "cancel:62", "readcard"], 2),
    (["new", "configure", "readcard"], 1),
]
# configuration / terminal variants of the start-up: the terminal reports ANOTHER terminal id (the 06 1B set-terminal-id exchange runs,
# with faults at its items too), and an EMPTY configured terminal id (the client falls back to 00000000)
VARIANTS = [
    (["new", "readcard"], 1, dict(ttid="11111111")),
    (["new", "readcard"], 1, dict(cfg_tid="", ttid="00000000")),
    (["new", "readcard"], 1, dict(cfg_tid="", ttid="52523535")),
]


def baseline(spec, cfg, calls, queues=None, ttid=None):
    a = G.Abs(spec, cfg, queues or {}, None, ttid)
    for c in calls:
        f = c.split(":")
        if f[0] == "new": a.new()
        elif f[0] == "configure": a.configure()
        elif f[0] == "readcard": a.read_card(classify_status)
        elif f[0] == "begin": a.begin(bytes.fromhex(f[1]).decode())
        elif f[0] == "cancel": a.cancel(bytes.fromhex(f[1]).decode())
        elif f[0] == "commit": a.commit(bytes.fromhex(f[1]).decode(), int(f[2]))
    return a


def handshake(P, cfg):
    return ["rx:" + P.registration(cfg).hex(), "rx:800000", "rx:" + P.sysinfo().hex(), "rx:800000"]


def check_logs(P, cfg, results, logs, a, j, kind):
    """property oracle on the implementation's logs for a single fault at item j of connection 0"""
    if any(r[0] in ("hang", "panic") for r in results):
        return "a call did not return / panicked"
    hs = handshake(P, cfg)
    c0 = [e for e in logs.get(0, []) if e.startswith("rx:")]
    # (1) connection 0: exactly the packets up to the one that triggered the faulty item, nothing after the failure
    upto = a.trigger[j] if j < len(a.trigger) else None
    if upto is not None:
        exp0 = ["rx:" + p.hex() for p in a.tx[: upto + 1]]
        if c0 != exp0:
            k = next((i for i in range(min(len(c0), len(exp0))) if c0[i] != exp0[i]), min(len(c0), len(exp0)))
            return f"connection 0 saw a {kind} at item {j} but its traffic is not exactly the fault-free prefix (packet #{k}: got {c0[k] if k < len(c0) else 'nothing'}, expected {exp0[k] if k < len(exp0) else 'nothing'})"
    # (2) every further connection is vetted before it carries a command
    for k, log in logs.items():
        if k == 0:
            continue
        rx = [e for e in log if e.startswith("rx:")]
        if not rx:
            continue
        if rx[: len(hs)] != hs[: len(rx)] if len(rx) < len(hs) else rx[: len(hs)] != hs:
            return f"connection {k} is used without registration (configured password/currency) and identity check first: {rx[:4]}"
    # (3) a healthy connection is kept: one failure => exactly one reconnect
    opens = sum(1 for log in logs.values() if log and log[0].startswith("open@"))
    if upto is not None and opens != 2:
        return f"{opens} connections were opened for a single failure (expected the failed one and one replacement that is then reused)"
    return None


def run(ctx, out):
    spec = S.load_spec()
    P = G.Packets(spec)
    rng = ctx.rng
    thorough = ctx.search_tier == "thorough"
    ops, meta = [], []
    faults = ["close", "nack", "garbage:aabb00", "stall"]
    for calls, mx in HISTORIES:
        cfg = G.default_cfg(max=mx)
        a = baseline(spec, cfg, calls)
        n_items = len(a.trigger)
        for j in range(n_items):
            # where an acknowledgement is due also: a WELL-FORMED packet of another kind (intermediate status, completion)
            for f in faults + (["garbage:04ff0117", "garbage:060f00"] if a.is_ack[j] else []):
                ops.append(G.op_line(cfg, calls, G.script_str(cfg, None, {(0, j): f})))
                meta.append((cfg, a, j, f, "single"))
    # a LATE answer: the terminal pauses 7 s before every packet and 70 s before item j — longer than every time-out of the client (60 s
    # handshake / packet, 17 s read_card) — and then carries on as if nothing had happened. The client has given the connection up by
    # then; whatever arrives later must find it closed (nothing more is written on it), and the retry runs on a new, vetted connection.
    # The same against a chatty terminal (two intermediate statuses before every final packet).
    def chatty(cfg):
        a0 = G.Abs(spec, cfg, {}, None, None)
        # (read_card's reply set has no print packets; the others get an intermediate status, a print line and a print text block)
        return {kind: [([P.intermediate(), P.intermediate()] if kind == "06c0" else [P.intermediate(), P.print_line("chatty"), P.print_text_block()]) + a0.replies(kind)] * 60
                for kind in ("06c0", "0693", "0650", "0622", "0623", "0625")}
    for calls, mx in HISTORIES:
        cfg = G.default_cfg(max=mx)
        for q in (None, chatty(cfg)):
            a = baseline(spec, cfg, calls, q)
            for j in range(len(a.trigger)):
                ops.append(G.op_line(cfg, calls, G.script_str(cfg, q, {(0, j): "late:9"}) + " gap=7"))
                meta.append((cfg, a, j, "late answer", "single"))
                if q is not None:
                    for f in faults:
                        ops.append(G.op_line(cfg, calls, G.script_str(cfg, q, {(0, j): f})))
                        meta.append((cfg, a, j, f, "single"))
    for calls, mx, var in VARIANTS:
        cfg = G.default_cfg(max=mx)
        if "cfg_tid" in var:
            cfg = dict(cfg, tid=var["cfg_tid"])
        ttid = var.get("ttid")
        a = baseline(spec, cfg, calls, None, ttid)
        for j in range(len(a.trigger)):
            for f in faults:
                ops.append(G.op_line(cfg, calls, G.script_str(cfg, None, {(0, j): f}, None, None, ttid)))
                meta.append((cfg, a, j, f, "single"))
    # wrong serial on the first connection(s): never used for commands
    for calls, mx in HISTORIES[:2]:
        cfg = G.default_cfg(max=mx)
        a = baseline(spec, cfg, calls)
        for wrong in ("17fd1e3d", "XXXXXXXX", "17FD1E3", ""):
            q = {"0fa1": [[P.sysinfo_reply(wrong.encode().ljust(8, b"\0"), cfg["tid"].encode())]]}
            ops.append(G.op_line(cfg, calls, G.script_str(cfg, q)))
            meta.append((cfg, a, None, "wrongserial:" + wrong, "serial"))
        # the identity request is answered with a well-formed abort (a reply type of that sequence): no serial was reported,
        # so the connection is not vetted and must carry nothing but the handshake
        for code in (0x83, 0x6c, 0xb8, 0x00, 0xff):
            q = {"0fa1": [[P.abort(code)]]}
            ops.append(G.op_line(cfg, calls, G.script_str(cfg, q)))
            meta.append((cfg, a, None, "identity-abort:%02x" % code, "serial"))
        # case-insensitive match must be accepted
        cfg2 = G.default_cfg(max=mx, serial="17fd1e3c")
        ops.append(G.op_line(cfg2, calls, G.script_str(cfg2, None, None, None, "17FD1E3C")))
        meta.append((cfg2, baseline(spec, cfg2, calls), None, "serial-case", "serial-ok"))
    # refused / stalled connection attempts, then success
    for conn in (["refuse"], ["stall"], ["refuse", "stall", "refuse"]):
        cfg = G.default_cfg()
        calls = ["new", "readcard"]
        ops.append(G.op_line(cfg, calls, G.script_str(cfg, None, None, conn)))
        meta.append((cfg, baseline(spec, cfg, calls), None, "connect:" + ",".join(conn), "connect"))
    # multi-fault sequences (sampled)
    for _ in range(400 if thorough else 60):
        calls, mx = rng.choice(HISTORIES)
        cfg = G.default_cfg(max=mx)
        a = baseline(spec, cfg, calls)
        fl = {}
        for _k in range(rng.randint(2, 4)):
            fl[(rng.randint(0, 3), rng.randrange(len(a.trigger)))] = rng.choice(faults)
        pace = rng.choice([0, 0, 3, 7])      # half of them against a terminal that pauses before every packet
        ops.append(G.op_line(cfg, calls, G.script_str(cfg, None, fl) + (f" gap={pace}" if pace else "")))
        meta.append((cfg, a, None, "multi", "multi"))
    impl, model = ctx.pair(ops)
    out.compare("client(faults)", ops, impl, model)
    out.evaluations = len(ops)
    for o, r, (cfg, a, j, f, kd) in zip(ops, impl, meta):
        out.count(kd + ":" + f.split(":")[0])
        out.nontrivial.add(o)
        results, logs = G.parse_out(r)
        if results is None:
            out.oracle_failures.append({"op": o, "observed": r[:300], "expected": "results || logs", "key": o[:200], "what": "client operation did not produce a result (panic / hang / died)"})
            continue
        why = None
        if kd == "single":
            why = check_logs(P, cfg, results, logs, a, j, f)
        elif kd == "serial":
            # the connection whose terminal reported a different serial must carry nothing but the handshake
            c0 = [e for e in logs.get(0, []) if e.startswith("rx:")]
            if c0 != handshake(P, cfg):
                why = f"connection 0 answered the identity check with {f} but carried {c0[4:6]} after it"
        elif kd == "serial-ok":
            if len(logs) != 1:
                why = "a serial that differs only in case was not accepted"
        elif kd in ("connect", "multi"):
            hs = handshake(P, cfg)
            for k, log in logs.items():
                rx = [e for e in log if e.startswith("rx:")]
                if len(rx) > len(hs) and rx[: len(hs)] != hs:
                    why = f"connection {k} carries commands without a preceding registration and identity check"
            if any(x[0] in ("hang", "panic") for x in results):
                why = "a call did not return / panicked"
        if why:
            out.oracle_failures.append({"op": o, "observed": r[:600], "expected": "see what", "key": o[:300], "what": why})
    out.rule = (f"{len(HISTORIES)} call histories (start-up, read card, begin/commit/cancel over one and two tokens, configure, each followed by a further operation) x a single fault {faults} (and, where an acknowledgement is due, a well-formed intermediate status / completion instead) at EVERY item the terminal sends on the first "
                "connection (handshake included); the same faults against a chatty terminal (two intermediate statuses before every final packet: faults BETWEEN two reply packets); a LATE answer at every item (the terminal pauses 7 s before every packet and 70 s before that item — past every time-out of the client — and then carries on: the abandoned connection must be closed and see nothing more); wrong / case-different serial; identity request answered with an abort (5 codes); refused and stalled connection attempts; sampled multi-fault sequences over 4 connections (half of them against a terminal pausing 3 s / 7 s before every packet). Oracle on the terminal's per-connection log: the failed "
                "connection carries exactly the fault-free prefix and nothing after the failure, every other connection starts with registration (configured password, currency) + identity check, one failure => exactly one reconnect "
                "(the replacement is reused). implementation = model exactly (incl. virtual time stamps)")
    out.samples = [ops[7][:400], {"op": ops[-1][:300], "impl": impl[-1][:400]}]
