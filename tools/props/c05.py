"""C05 — command sequences acknowledge every packet once and stop at the final packet."""
import itertools
from .. import common as C, structs as S, valgen as V, seqgen as G, clientgen as CG
from . import c11

LEAN_MODULES = ["ZvtVerif.Properties.C05"]
TRANSLATED = {"structs", "sequences", "fileids"}      # translated tables this property consumes (a translator problem elsewhere does not break its tie)
ASSUMPTIONS = ["scripted terminal: releases acknowledgement + first reply after the command, then one item per client packet (reply i+1 only after reply i was answered)",
               "WriteFile (own into_stream): well-formed upload scripts over several files here; malformed requests and the file table under C11"]


def run(ctx, out):
    spec = S.load_spec(plus=ctx.schema)        # reply alphabets, kinds and final sets from the frozen specification table
    rng = ctx.rng
    thorough = ctx.search_tier == "thorough"
    depth = 5 if thorough else 3
    g = V.Gen(spec, rng)
    ops, want = [], []
    ack = bytes([0x80, 0, 0])
    for s, enum, sin in G.sequences(spec):
        once = s["kind"] == "once"
        finals = s["finals"]
        alpha = G.alphabet(spec, g, rng, enum, reps=2 if not thorough else 3)
        letters = [x for grp in alpha for x in grp]
        nonfinal = [x for x in letters if x[2] not in finals] if not once else []
        final = [x for x in letters if once or x[2] in finals]
        cmds = G.commands(spec, g, rng, sin)
        scripts = []
        maxd = 0 if once else depth - 1
        for d in range(0, maxd + 1):
            prefixes = list(itertools.product(nonfinal, repeat=d))
            if len(prefixes) > (3000 if thorough else 300):
                prefixes = rng.sample(prefixes, 3000 if thorough else 300)
            for pre in prefixes:
                for f in final:
                    scripts.append(list(pre) + [f])
        # random deeper ones
        if not once and nonfinal:
            for _ in range(40 if thorough else 10):
                scripts.append([rng.choice(nonfinal) for _ in range(rng.randint(depth, 12))] + [rng.choice(final)])
        for sc in scripts:
            junk = bytes(rng.randrange(256) for _ in range(rng.choice([0, 0, 1, 3, 9]))) if rng.random() < 0.6 else rng.choice(letters)[0]
            items = [ack] + [x[0] for x in sc[:-1]] + [sc[-1][0] + junk]
            # sometimes further items behind the final one (must not be read either)
            if rng.random() < 0.2:
                items.append(rng.choice(letters)[0])
            # a share of the scripts with every read of the client limited to 1, 2 or 7 bytes (short reads): same behaviour required
            k = rng.choice([0, 0, 0, 1, 2, 7])
            # a share of those additionally with 6 / 61 virtual seconds passing before every piece (a reply that trickles in, with
            # pauses inside its header and its body): a correct client simply waits — same events
            tag = ("@%d" % k if k else "") + ("@%d" % rng.choice([6, 61]) if k and rng.random() < 0.4 else "")
            cmd = rng.choice(cmds)
            ops.append(f"seq{tag} {s['name']} {cmd.hex()} " + ",".join(i.hex() for i in items))
            ev, done = G.expected_events(cmd, 3, sc, finals, once)
            want.append(" / ".join(ev + ["end"]))
    # the firmware upload loop (its own into_stream): every data request answered exactly once with the requested block
    wops, wwant, _ = c11.gen_cases(spec, CG.Packets(spec), rng, 400 if thorough else 80, thorough, wellformed=True)
    wops = [("wf@%d" % rng.choice([1, 3, 64]) + o[2:]) if rng.random() < 0.3 else o for o in wops]
    ops += wops
    want += [w if w.endswith("end") else w for w in wwant]
    impl, model = ctx.pair(ops)
    out.compare("seq(well-formed)", ops, impl, model)
    out.evaluations = len(ops)
    for o, r, w in zip(ops, impl, want):
        out.count(o.split()[1] if o.startswith("seq") else "feig::sequences::WriteFile")
        if "@" in o.split()[0]:
            out.count("short-reads")
        if o.split()[0].count("@") == 2:
            out.count("short-reads-with-pauses")
        out.nontrivial.add(o)
        if r != w:
            i = next((j for j in range(min(len(r), len(w))) if r[j] != w[j]), min(len(r), len(w)))
            out.oracle_failures.append({"op": o[:400], "observed": "…" + r[max(0, i - 80):i + 160], "expected": "…" + w[max(0, i - 80):i + 160], "key": o[:200],
                                        "what": f"{o.split()[1] if o.startswith('seq') else 'feig::sequences::WriteFile'}: not (command once, ack read, each reply read-answered-yielded in order, end right after the first final packet, nothing read behind it)"})
    out.rule = (f"all {len(spec['sequences'])} `impl Sequence` exchanges x a pool of commands each (random canonical values, and all fields present with every number 0 / 1 / 2) x reply scripts over each command's reply alphabet (2 canonical packets per variant): bounded-exhaustive up to depth {depth} "
                "(sampled to 300 prefixes per length when larger), random deeper scripts up to 13 replies, random bytes or whole packets queued behind the final packet; half of the scripts additionally with every read of the client limited to 1, 2 or 7 bytes, 40 % of those with 6 or 61 virtual seconds before every piece (pauses inside a packet); the ordered event log "
                "(writes with bytes, reads with byte counts, yields, end) of the real into_stream against the scripted in-memory terminal equals the model's and the independently computed expectation. "
                "Plus the firmware upload loop (WriteFile::into_stream): payload directories with several files x request walks over them (sequential, round-robin, continuing in another file) "
                "ended by completion or abort with bytes queued behind: each request answered exactly once with the requested block of the requested file. non-trivial = distinct (sequence, script)")
    out.samples = [ops[0][:300], {"op": ops[len(ops)//2][:200], "impl": impl[len(ops)//2][:300]}]
