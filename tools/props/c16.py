"""C16 — every length-prefix style is an exact, shortest-form bijection on its range."""
from .. import common as C

LEAN_MODULES = ["ZvtVerif.Properties.C16"]
NEEDS_RELEASE = True
TRANSLATED = set()      # translated tables this property consumes (a translator problem elsewhere does not break its tie)
ASSUMPTIONS = ["usize is 64 bit", "Fixed<N> exercised for N = 0..17 (const generic instantiations compiled into the harness)"]


def ref_ser(style, n):
    """independent reference prefix (what the property states)"""
    if style == "tlv":
        if n < 128: return bytes([n])
        if n < 256: return bytes([0x81, n])
        return bytes([0x82, n >> 8, n & 255])
    if style == "adpu":
        if n < 255: return bytes([n])
        return bytes([0xff, n & 255, n >> 8])
    if style.startswith("llv:"):
        k = int(style[4:])
        return bytes(0xf0 | int(c) for c in str(n).rjust(k, "0"))
    raise ValueError(style)


RANGES = {"tlv": 65536, "adpu": 65536, "llv:2": 100, "llv:3": 1000, "llv:1": 10, "llv:4": 10000}


def run(ctx, out):
    rng = ctx.rng
    thorough = ctx.search_tier == "thorough"
    ops = []
    # (1) every representable length of every style, serialised
    for style, top in RANGES.items():
        for n in range(top):
            ops.append(f"len.ser {style} {n}")
    for N in range(0, 18):
        for ln in range(0, N + 1):
            ops.append(f"len.ser fixed:{N} {ln}")
    impl, model = ctx.pair(ops)
    from ..flow import history_check, release_check
    history_check(ctx, out, ops, impl, "length prefix")
    release_check(ctx, out, ops, impl, "length prefix")
    out.compare("len.ser", ops, impl, model)
    out.evaluations += len(ops)
    # oracle on the implementation alone: prefix = reference prefix
    de_ops = []
    expect = []
    for o, r in zip(ops, impl):
        _, style, n = o.split()
        n = int(n)
        if style.startswith("fixed"):
            N = int(style[6:])
            want = "ok " + C.hexs(bytes(N - n))
            if r != want:
                out.oracle_failures.append({"op": o, "observed": r, "expected": want, "what": f"Fixed<{N}>::serialize({n}) is not {N-n} zero bytes", "key": o})
            continue
        want = "ok " + C.hexs(ref_ser(style, n))
        out.nontrivial.add(o)
        if r != want:
            out.oracle_failures.append({"op": o, "observed": r, "expected": want, "what": f"{style} prefix of length {n} is not the shortest specified form", "key": o})
            continue
        # round trip with trailing data
        for tail in (b"", bytes([n & 255]), bytes([0xff, 0x00, 0x81])):
            de_ops.append(f"len.de {style} {C.hexs(ref_ser(style, n) + tail)}")
            expect.append(f"ok {n} {C.hexs(tail)}")
        # truncated prefixes
        p = ref_ser(style, n)
        if n % 257 == 0 or n < 300:
            for k in range(len(p)):
                de_ops.append(f"len.de {style} {C.hexs(p[:k])}")
                expect.append("err incomplete")
    # a prefix followed by ANY amount of data: trailer lengths 0..520 (all of them) behind boundary prefixes of every style,
    # non-minimal but accepted forms included (81 05, 82 00 05, ff fd 00): length and data must not depend on how much follows
    sweep = {"tlv": [bytes([0]), bytes([5]), bytes([0x7f]), bytes([0x81, 0x05]), bytes([0x81, 0x80]), bytes([0x81, 0xff]), bytes([0x82, 0x00, 0x05]),
                     bytes([0x82, 0x01, 0x00]), bytes([0x82, 0xff, 0xff])],
             "adpu": [bytes([0]), bytes([5]), bytes([0xfe]), bytes([0xff, 0xfd, 0x00]), bytes([0xff, 0xff, 0x00]), bytes([0xff, 0x00, 0x01]), bytes([0xff, 0xff, 0xff])],
             "llv:2": [bytes([0xf0, 0xf0]), bytes([0xf9, 0xf9]), bytes([0x01, 0x02])], "llv:3": [bytes([0xf0, 0xf0, 0xf0]), bytes([0xf2, 0xf5, 0xf5]), bytes([0xf9, 0xf9, 0xf9])]}
    def announced(style, p):
        if style == "tlv":
            return p[0] if p[0] < 0x80 else (p[1] if p[0] == 0x81 else p[1] * 256 + p[2])
        if style == "adpu":
            return p[0] if p[0] != 0xff else p[1] + 256 * p[2]
        v = 0
        for d in p:
            v = v * 10 + (d & 15)
        return v
    for style, prefixes in sweep.items():
        for p in prefixes:
            for tl in range(0, 521):
                tail = bytes(((i * 7 + tl) & 0xff) for i in range(tl))
                de_ops.append(f"len.de {style} {C.hexs(p + tail)}")
                expect.append(f"ok {announced(style, p)} {C.hexs(tail)}")
    # … and by ANY data: every value of the byte directly behind the prefix (a digit byte F0..F9 behind LLVAR digits, 81 / 82 / FF behind
    # a BER or APDU length, 00), for a few lengths of every style
    for style in ("tlv", "adpu", "llv:2", "llv:3"):
        for n in (0, 1, 9, 42, 99):
            for b in range(256):
                tail = bytes([b, 0x31, b])
                de_ops.append(f"len.de {style} {C.hexs(ref_ser(style, n) + tail)}")
                expect.append(f"ok {n} {C.hexs(tail)}")
    impl2, model2 = ctx.pair(de_ops)
    out.compare("len.de", de_ops, impl2, model2)
    out.evaluations += len(de_ops)
    for o, r, w in zip(de_ops, impl2, expect):
        if r != w:
            out.oracle_failures.append({"op": o, "observed": r, "expected": w, "what": "parsing a prefix followed by data does not return the encoded length and exactly that data (or a truncated prefix is not an error)", "key": o})
    # (2) every 1- and 2-byte string (thorough: every 3-byte string for tlv/adpu) through each parser: total, model = impl
    styles = ["tlv", "adpu", "llv:2", "llv:3", "fixed:1", "fixed:2", "fixed:3", "empty"]
    ops3 = []
    for st in styles:
        ops3.append(f"len.de {st} -")
        for a in range(256):
            ops3.append(f"len.de {st} {a:02x}")
        for a in range(256):
            for b in range(256):
                ops3.append(f"len.de {st} {a:02x}{b:02x}")
    if thorough:
        for st in ("tlv", "adpu", "llv:3"):
            for a in (0x00, 0x7f, 0x80, 0x81, 0x82, 0x83, 0xfe, 0xff, 0xf0, 0xf9):
                for b in range(256):
                    for c in range(256):
                        ops3.append(f"len.de {st} {a:02x}{b:02x}{c:02x}")
    else:
        for st in ("tlv", "adpu", "llv:3"):
            for a in (0x81, 0x82, 0xff, 0xf1):
                for b in range(0, 256, 5):
                    for c in range(0, 256, 17):
                        ops3.append(f"len.de {st} {a:02x}{b:02x}{c:02x}")
    impl3, model3 = ctx.pair(ops3)
    out.compare("len.de", ops3, impl3, model3)
    # parsing is a pure function: the same prefixes again in look-alike order (05 directly before 00 05, 81 80 before 00 81 80, …)
    history_check(ctx, out, de_ops + ops3, impl2 + impl3, "length prefix parser")
    release_check(ctx, out, de_ops + ops3, impl2 + impl3, "length prefix parser")
    out.evaluations += len(ops3)
    for o, r in zip(ops3, impl3):
        kind = r.split()[0] + (" " + r.split()[1] if r.startswith("err") else "")
        out.count("len.de:" + kind)
        if r in ("panic", "died", "hang"):
            out.oracle_failures.append({"op": o, "observed": r, "expected": "ok … | err …", "what": "length parser panics", "key": o})
    out.nontrivial |= set(ops3[:0])
    out.exhaustive = True
    out.rule = ("exhaustive: every representable length of tlv/adpu/llv:1-4 and every (N, len<=N) of Fixed<0..17> serialised (implementation vs model vs independent reference prefix), "
                "each parsed back with 3 different trailers and every strict prefix; boundary and non-minimal prefixes of every style followed by every trailer length 0..520; prefixes of five lengths per style followed by every value of the next byte; every 0/1/2-byte string (and a grid or, thorough, 10x65536 3-byte strings) through 8 parsers. "
                "non-trivial = distinct (style, length) pairs whose prefix was checked against the reference")
    out.samples = [ops[300], ops[70000], de_ops[5], ops3[70000], {"op": de_ops[1000], "impl": impl2[1000], "model": model2[1000]}]
