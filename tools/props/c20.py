"""C20 — a terminal abort always surfaces as an error identifying its result code."""
from .. import common as C, structs as S, clientgen as G
from .c07 import run_histories, tok

LEAN_MODULES = ["ZvtVerif.Properties.C20"]
NEEDS_RELEASE = True
TRANSLATED = {"structs", "sequences", "errors"}      # translated tables this property consumes (a translator problem elsewhere does not break its tie)
ASSUMPTIONS = ["fault-free transport; oracle = abstract specification (clientgen.Abs) + explicit identification check on the implementation's results"]


def run(ctx, out):
    spec = S.load_spec()
    P = G.Packets(spec)
    errors = G.error_table(spec)
    rng = ctx.rng
    thorough = ctx.search_tier == "thorough"
    cases, meta = [], []
    T = tok("a")
    okb = [P.status(receipt_no=11, result_code=0), P.completion()]
    for code in range(256):
        ab, prab = P.abort(code), P.pr_abort(code)
        if code % 4 == 1:
            # every fourth code: the abort carries more than its result code, as the specification allows (the currency code behind
            # 6F, a TLV container with an extended error code / text) — it still is an abort with that result code
            extra = bytes.fromhex("0978") if code % 8 == 1 else bytes.fromhex("06041f160105")
            ab = bytes([0x06, 0x1e, 1 + len(extra), code]) + extra
            prab = bytes([0x06, 0x1e, 1 + len(extra), code]) + extra
        pre = [[], [P.intermediate()], [P.intermediate(), P.print_line("x")]]
        def add(calls, q, op, idx, ttid=None, cfg=None):
            cases.append((cfg or G.default_cfg(), calls, q, None, ttid))
            meta.append((op, code, idx))
        # read card: abort after 0..2 intermediate statuses
        for k in range(3):
            add(["new", "readcard"], {"06c0": [[P.intermediate()] * k + [ab]]}, "readcard", 1)
        # begin: abort at once / after intermediate status / after a status information
        for p in ([], [P.intermediate()], [P.status(receipt_no=5, result_code=0)]):
            add(["new", f"begin:{T}"], {"0622": [p + [ab]]}, "begin", 1)
        # commit: abort at once / after packets
        for p in ([], [P.intermediate()], [P.status(result_code=0, amount=3)], [P.print_line("x"), P.status(result_code=0)]):
            add(["new", f"begin:{T}", f"commit:{T}:5"], {"0622": [okb], "0623": [p + [prab]]}, "commit", 2)
        # cancel
        for p in ([], [P.intermediate()], [P.status(result_code=0)]):
            add(["new", f"begin:{T}", f"cancel:{T}"], {"0622": [okb], "0625": [p + [prab]]}, "cancel", 2)
        # sub-exchanges of going idle: reversal of the dangling pre-authorisation, end-of-day
        add(["new", f"begin:{T}", f"cancel:{T}"], {"0622": [okb], "0623q": [[P.pr_abort(0xb8, 0xffff)], [P.pr_abort(0xb8, 77)]], "0625": [[P.completion()], [prab]]}, "cancel/pending-reversal", 2)
        add(["new", f"begin:{T}", f"commit:{T}:5"], {"0622": [okb], "0650": [[P.completion()], [P.intermediate(), prab]]}, "commit/end-of-day", 2)
        add(["new", f"begin:{T}", f"cancel:{T}"], {"0622": [okb], "0650": [[P.completion()], [prab]]}, "cancel/end-of-day", 2)
        # configure and its sub-exchanges (second configure, after a clean start-up)
        add(["new", "configure"], {"0fa1": [None, None, [ab]]}, "configure/system-info", 1)
        add(["new", "configure"], {"061b": [[P.completion()], [ab]]}, "configure/set-terminal-id", 1, ttid="00000001")
        for p in pre:
            add(["new", "configure"], {"0693": [[P.completion()], p + [ab]]}, "configure/initialisation", 1)
        add(["new", "configure"], {"0650": [[P.completion()], [prab]]}, "configure/end-of-day", 1)
        add(["new", "configure"], {"0623q": [[P.pr_abort(0xb8, 0xffff)], [P.pr_abort(0xb8, 42)]], "0625": [[prab]]}, "configure/pending-reversal", 1)
    # `None` entries mean "default reply": replace by the explicit default so that terminal and specification agree
    fixed = []
    for cfg, calls, q, ts, tt in cases:
        q2 = {}
        for k, entries in q.items():
            q2[k] = [e if e is not None else G.Abs(spec, cfg, {}, ts, tt).replies(k) for e in entries]
        fixed.append((cfg, calls, q2, ts, tt))
    ops, impl = run_histories(ctx, out, fixed, "abort handling", release=True)
    # a slow but talking terminal: every item 14 virtual seconds after the previous one (far less than the 60 s per-packet
    # time-out; the 4 items of the handshake stay within its 60 s guard), the whole reply script lasting longer than 60 s
    # — the abort must surface all the same
    slow = []
    for code in sorted(set(list(range(0, 256, 16)) + [0x6c, 0xa0, 0xfc, 0xff])):
        ab, prab = P.abort(code), P.pr_abort(code)
        slow.append((G.default_cfg(), ["new", f"begin:{T}"], {"0622": [[P.intermediate(), P.intermediate(), P.intermediate(), P.status(receipt_no=5, result_code=0), P.intermediate(), ab]]}, None, None))
        slow.append((G.default_cfg(), ["new", f"begin:{T}", f"commit:{T}:5"], {"0622": [okb], "0623": [[P.intermediate(), P.intermediate(), P.status(result_code=0, amount=3), P.print_line("x"), P.intermediate(), prab]]}, None, None))
        slow.append((G.default_cfg(), ["new", f"begin:{T}", f"cancel:{T}"], {"0622": [okb], "0625": [[P.intermediate(), P.intermediate(), P.intermediate(), P.intermediate(), P.intermediate(), prab]]}, None, None))
        slow.append((G.default_cfg(), ["new", "configure"], {"0693": [[P.completion()], [P.intermediate(), P.print_line("x"), P.intermediate(), P.intermediate(), P.intermediate(), ab]]}, None, None))
    sops, simpl = run_histories(ctx, out, slow, "abort handling with a slow terminal (14 s between packets)", gap=14)
    for o in sops:
        out.count("slow-terminal")
    # identification oracle on the implementation alone
    for o, r, (op, code, idx) in zip(ops, impl, meta):
        out.count(op)
        res = r.split(" || ")[0].split(" | ")
        if idx >= len(res):
            continue
        x = res[idx].rsplit("@", 1)[0]
        ok_exceptions = (op == "readcard" and code == 0x6c and x == "err noCard") or (op == "begin" and code == 0xfc and x == "err needsPin") or \
                        (op.endswith("end-of-day") and code == 0xa0 and x.startswith("ok"))
        names = [f"err aborted:{code}", "err other:" + ("Unknown error code: 0x%X" % code).encode().hex()]
        if code in errors:
            names.append("err other:" + ("Unhandled error: " + errors[code]).encode().hex())
        if not ok_exceptions and x not in names:
            out.oracle_failures.append({"op": o, "observed": x, "expected": " | ".join(names), "key": f"{op} code={code} " + o[:120],
                                        "what": f"{op}: terminal abort with result code 0x{code:02x} is not reported as an error identifying that code"})
    out.rule = ("all 256 result codes (every fourth abort also carrying the currency code or a TLV container behind its result code) x {read card, begin, commit, cancel, pending-reversal and end-of-day while going idle, configure: system info, set terminal id, initialisation, pending reversal, end-of-day} "
                "x position of the abort in the reply script (at once, after intermediate status / print line / status information). The call must fail naming the code (Aborted(c), or for card reading the specification's message "
                "for c / 'Unknown error code'), with exactly the three documented translations. implementation = model = specification, plus an explicit identification check on the implementation's results. "
                "Also (implementation vs specification only; the model has no delays): the same with a slow terminal that lets 14 virtual seconds pass before every packet (multi-packet scripts lasting longer than the 60 s per-packet time-out)")
    out.samples = [ops[3][:400], {"op": ops[-1][:200], "impl": impl[-1][:300]}]
