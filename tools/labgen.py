"""C12: random well-formed `#[derive(Zvt)]` struct definitions (Rust source + the generator's own schema
description in the format of the translator's schema.json)."""

INTS = [("u8", 1), ("u16", 2), ("u32", 4), ("u64", 8), ("usize", 8)]


# field names a user may plausibly write, the names of the generated decoder's own locals among them (defect D10: a field
# `curr_len: usize` was silently overwritten). Names that make the PINNED macro fail to compile (`bytes`, `v`,
# `required_tags`, `actual_tags`: type errors, not silent misbehaviour) are left out.
NAMES = ["len", "length", "size", "data", "value", "id", "count", "kind", "flags", "amount", "code", "text", "name", "index", "offset",
         "n", "x", "i", "result", "status", "payload", "buf", "tag_no", "ty", "input", "output", "number", "total", "key", "curr_len",
         "as_vec", "item", "remainder", "rest", "pos", "start", "end", "rv", "ret", "out", "tmp", "val", "field", "this", "other"]


class Lab:
    def __init__(self, rng, max_fields=8, max_depth=3):
        self.rng, self.max_fields, self.max_depth = rng, max_fields, max_depth
        self.structs = []     # (name, ctrl, fields, exact)
        self.n = 0
        self.tag_heavy = False   # C13: mostly tagged fields, several of them mandatory
        self.plain_names = False # fall-back when the generated source does not compile: f0..fN only (same structs otherwise)

    def rename(self, fields):
        """half of the structs get plausible field names instead of f0..fN (always `curr_len` / `len` for a usize field if there is one)"""
        if not fields or self.rng.random() < 0.5 or self.plain_names:
            return
        # `curr_len` / `len` only for usize fields: with another type a capture by the decoder's counter is a compile error (reported as
        # "generated well-formed structs must compile", without a failing input); with usize it is a silently wrong value
        pool = [x for x in self.rng.sample(NAMES, len(NAMES)) if x not in ("curr_len", "len")]
        us = [f for f in fields if f["rust_ty"] == "usize"]
        for f, special in zip(us, self.rng.sample(["curr_len", "len"], 2)):
            f["name"] = special
        for f in fields:
            if f["name"].startswith("f") and f["name"][1:].isdigit():
                f["name"] = pool.pop()

    # ---------------------------------------------------------------- spellings of the two wrapper types
    def opt(self, rt):
        c = self.rng.random()
        return (f"Option<{rt}>" if c < 0.7 else f"std::option::Option<{rt}>" if c < 0.8 else f"::std::option::Option<{rt}>" if c < 0.9
                else f"core::option::Option<{rt}>")

    def vec(self, rt):
        c = self.rng.random()
        return f"Vec<{rt}>" if c < 0.7 else f"std::vec::Vec<{rt}>" if c < 0.85 else f"::std::vec::Vec<{rt}>"

    # ---------------------------------------------------------------- leaf field kinds
    def int_ty(self):
        return self.rng.choice(INTS)

    def leaf(self, positional, greedy_ok, delimited_only=False):
        """returns (rust_ty, ty_json, length, encoding, exact) for a non-container leaf"""
        r = self.rng
        kinds = ["int", "int", "bcd", "str", "hex"]
        if greedy_ok:
            kinds += ["greedy"] * 2
        k = r.choice(kinds)
        if k == "greedy":
            g = r.choice(["str", "hex", "utf8", "bcd"])
            if g == "bcd":
                n, w = self.int_ty()
                return n, {"k": "int", "w": w}, "empty", "bcd", False
            return "String", {"k": "str"}, "empty", {"str": "dflt", "hex": "hex", "utf8": "utf8"}[g], False
        if k == "int":
            n, w = self.int_ty()
            enc = r.choice(["dflt", "be"])
            length = r.choice(["empty", f"fixed:{w}"]) if not delimited_only else r.choice([f"fixed:{w}", "tlv", "llv:2"])
            if length in ("tlv", "llv:2") and not positional and r.random() < 0.5:
                length = "empty" if not delimited_only else length
            return n, {"k": "int", "w": w}, length, enc, True
        if k == "bcd":
            n, w = self.int_ty()
            maxn = {1: 1, 2: 2, 4: 4, 8: 9}[w]
            length = r.choice([f"fixed:{r.randint(1, maxn)}", "llv:2", "llv:3", "tlv"])
            return n, {"k": "int", "w": w}, length, "bcd", True
        enc = "dflt" if k == "str" else "hex"
        length = r.choice([f"fixed:{r.randint(1, 12)}", "llv:2", "llv:3", "tlv"])
        return "String", {"k": "str"}, length, enc, True

    # ---------------------------------------------------------------- structs
    def new_name(self):
        self.n += 1
        return f"L{self.n}"

    def exact_struct(self, depth):
        """a nested struct made only of exact positional fields (usable without length prefix)"""
        name = self.new_name()
        fields = []
        for i in range(self.rng.randint(1, 3)):
            rt, tj, ln, enc, _ = self.leaf(True, False)
            fields.append({"name": f"f{i}", "rust_ty": rt, "ty": tj, "tag": None, "tag_src": None, "length": ln, "encoding": enc})
        self.rename(fields)
        self.structs.append({"name": "lab::" + name, "ctrl": None, "fields": fields})
        return name

    def any_struct(self, depth):
        return self.struct(depth, allow_ctrl=False)

    def field_type(self, depth, positional, greedy_ok, tagged_via):
        """(rust_ty, ty_json, length, encoding, exact)"""
        r = self.rng
        c = r.random()
        if depth < self.max_depth and c < 0.2:
            # nested struct
            if positional and r.random() < 0.4:
                n = self.exact_struct(depth + 1)
                return n, {"k": "struct", "name": "lab::" + n}, "empty", "dflt", True
            if positional and greedy_ok and r.random() < 0.6:
                # a nested struct without length prefix as the very last field: it takes everything that is left
                n = self.any_struct(depth + 1)
                return n, {"k": "struct", "name": "lab::" + n}, "empty", "dflt", False
            n = self.any_struct(depth + 1)
            ln = "tlv" if tagged_via == "tlv" else r.choice(["tlv", "llv:2", "llv:3"])
            return n, {"k": "struct", "name": "lab::" + n}, ln, "dflt", True
        rt, tj, ln, enc, exact = self.leaf(positional, greedy_ok)
        if tagged_via == "tlv":
            ln = "tlv"
            exact = True
            if enc == "utf8":
                enc = "dflt"
        return rt, tj, ln, enc, exact

    def tag_numbers(self, k, via_tlv):
        r = self.rng
        pool = [t for t in range(1, 255) if t not in (0x1f, 0xff)]
        if via_tlv:
            pool += [0x1f00 + x for x in range(0, 256, 7)] + [0xff00 + x for x in range(1, 256, 11)]
        tags = r.sample(pool, k)
        if k >= 2 and r.random() < (0.7 if self.tag_heavy else 0.3):
            # numbers that differ only in their prefix byte (XX, 1FXX, FFXX) or only in the bits a BER reader masks (XX, XX ^ 0x20 ...):
            # distinct numbers to this format, confusable for a decoder that keeps less than the whole number
            x = r.choice([t for t in range(1, 255) if t not in (0x1f, 0xff)])
            cand = [0x1f00 + x, 0xff00 + x, x] if r.random() < 0.75 else [x, x ^ 0x20, x ^ 0x80, 0x1f00 + (x ^ 0x20)]
            cand = [t for t in cand if t not in (0x1f, 0xff, 0)]
            r.shuffle(cand)
            take = cand[: r.randint(2, min(len(cand), k))]
            rest = [t for t in tags if t not in take]
            tags = (take + rest)[:k]
            r.shuffle(tags)
        return tags

    def struct(self, depth, allow_ctrl=True):
        r = self.rng
        name = self.new_name()
        n_fields = r.randint(0, self.max_fields if depth == 0 else 4)
        n_tagged = r.randint(0, n_fields)
        if self.tag_heavy:
            n_fields = r.randint(3, self.max_fields if depth == 0 else 4)
            n_tagged = r.randint(max(2, n_fields - 2), n_fields)
        n_pos = n_fields - n_tagged
        fields = []
        for i in range(n_pos):
            last = i == n_pos - 1
            greedy_ok = last and n_tagged == 0
            rt, tj, ln, enc, exact = self.field_type(depth, True, greedy_ok, None)
            wrap = r.random()
            if exact and (ln.startswith("fixed") or ln in ("tlv", "llv:2", "llv:3")) and wrap < 0.2:
                rt, tj = self.opt(rt), {"k": "opt", "t": tj}
            elif last and n_tagged == 0 and tj["k"] == "struct" and ln == "empty" and not exact and wrap < 0.5:
                rt, tj = self.opt(rt), {"k": "opt", "t": tj}
            elif last and n_tagged == 0 and tj["k"] == "int" and ln == "empty" and enc in ("dflt", "be") and wrap < 0.25:
                rt, tj = self.vec(rt), {"k": "vec", "t": tj}
            fields.append({"name": f"f{i}", "rust_ty": rt, "ty": tj, "tag": None, "tag_src": None, "length": ln, "encoding": enc})
        via = [r.random() < 0.5 for _ in range(n_tagged)]
        tags = self.tag_numbers(n_tagged, any(via))
        for j in range(n_tagged):
            tlv = via[j]
            t = tags[j]
            if not tlv and t > 255 and r.random() < 0.5:
                t = r.choice([x for x in range(1, 255) if x not in (0x1f, 0xff) and x not in tags])
            # the LAST field of a struct may be a tagged bmp field without length prefix whose encoding takes "all the rest"
            # (BCD number, text): written as the bare number followed by the payload — possibly by nothing (0, empty text)
            greedy_last = (not tlv) and j == n_tagged - 1 and r.random() < 0.2 and not self.tag_heavy   # (C13's any-order law is not claimed for such a field)
            rt, tj, ln, enc, exact = self.field_type(depth, False, greedy_last, "tlv" if tlv else "bmp")
            if not tlv and ln == "empty" and not (tj["k"] == "int" and enc in ("dflt", "be")) and not (greedy_last and tj["k"] in ("int", "str")):
                ln = "tlv"
            w = r.random()
            if self.tag_heavy:
                w = 0.3 + 0.7 * w      # more mandatory fields
            if w < 0.45:
                rt, tj = self.opt(rt), {"k": "opt", "t": tj}
            elif w < 0.65 and not (greedy_last and ln == "empty" and not (tj["k"] == "int" and enc in ("dflt", "be"))):
                # (no Vec around a field that takes all the rest: its first element would swallow the following ones)
                rt, tj = self.vec(rt), {"k": "vec", "t": tj}
            fields.append({"name": f"f{n_pos + j}", "rust_ty": rt, "ty": tj, "tag": t, "tag_src": "tlv" if tlv else "bmp", "length": ln, "encoding": enc})
        ctrl = None
        if allow_ctrl and depth == 0 and r.random() < 0.5:
            ctrl = [r.randrange(256), r.randrange(256)]
        self.rename(fields)
        self.structs.append({"name": "lab::" + name, "ctrl": ctrl, "fields": fields})
        return name


LEN_RS = {"empty": None, "tlv": "length::Tlv", "llv:2": "length::Llv", "llv:3": "length::Lllv"}
ENC_RS = {"dflt": None, "be": "encoding::BigEndian", "bcd": "encoding::Bcd", "hex": "encoding::Hex", "utf8": "encoding::Utf8"}


def rust_source(structs):
    out = ["// GENERATED by /verif/tools/labgen.py (C12). Do not edit.", "#![allow(dead_code)]",
           "use zvt::{encoding, length, Zvt};", ""]
    for s in structs:
        out.append("#[derive(Debug, PartialEq, Default, Zvt)]")
        if s["ctrl"] is not None:
            out.append(f"#[zvt_control_field(class = 0x{s['ctrl'][0]:02x}, instr = 0x{s['ctrl'][1]:02x})]")
        out.append(f"pub struct {s['name'].split('::')[-1]} {{")
        for f in s["fields"]:
            ln = f["length"]
            lrs = LEN_RS[ln] if ln in LEN_RS else f"length::Fixed<{ln.split(':')[1]}>"
            ers = ENC_RS[f["encoding"]]
            if f["tag_src"] == "tlv":
                parts = [f"tag = 0x{f['tag']:x}"] + ([f"encoding = {ers}"] if ers else [])
                out.append(f"    #[zvt_tlv({', '.join(parts)})]")
            else:
                parts = ([f"number = 0x{f['tag']:x}"] if f["tag"] is not None else []) + ([f"length = {lrs}"] if lrs else []) + ([f"encoding = {ers}"] if ers else [])
                if parts:
                    out.append(f"    #[zvt_bmp({', '.join(parts)})]")
            out.append(f"    pub {f['name']}: {f['rust_ty']},")
        out.append("}")
        out.append("")
    return "\n".join(out)


def generate(rng, n_top, tag_heavy=False, plain_names=False):
    lab = Lab(rng, max_fields=7, max_depth=2) if tag_heavy else Lab(rng)
    lab.tag_heavy = tag_heavy
    lab.plain_names = plain_names
    tops = []
    for _ in range(n_top):
        tops.append("lab::" + lab.struct(0))
    # dependencies first (the translator orders the same way: definition order of first use is irrelevant for comparison by name)
    return lab.structs, tops
