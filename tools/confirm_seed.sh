#!/bin/bash
# usage: confirm_seed.sh <out-dir of the sub-agent> <seed-id>  -- confirms a seeded change in a scratch worktree:
#   demo passes on HEAD; with patch: workspace tests 34/34 pass, demo fails. Writes <out>/CONFIRM.txt
set -u
OUT=$1; ID=$2
WT=/tmp/confirm-$ID
LOG=$OUT/CONFIRM.txt
: > $LOG
git -C /repo worktree remove --force $WT 2>/dev/null
git -C /repo worktree add -q --detach $WT HEAD || exit 2
DEMO=$(ls $OUT/demo_*.rs 2>/dev/null | head -1)
if [ -z "$DEMO" ]; then echo "no demo_*.rs (custom demo project?)" >> $LOG; fi
CRATE=zvt
grep -q "zvt_feig_terminal/tests" $OUT/RUN.md 2>/dev/null && CRATE=zvt_feig_terminal
NAME=$(basename "$DEMO" .rs)
FEAT=""
[ $CRATE = zvt_feig_terminal ] && grep -q "zvt_verif" $OUT/RUN.md 2>/dev/null && FEAT="--features zvt_verif"
[ -n "$FEAT" ] && grep -q "tokio/test-util" $OUT/RUN.md 2>/dev/null && FEAT="--features zvt_verif,tokio/test-util"
cd $WT
run_demo() { mkdir -p $CRATE/tests; cp $DEMO $CRATE/tests/; timeout 900 cargo test -p $CRATE --test $NAME --offline $FEAT 2>&1 | grep -E "^test result|panicked|error(\[|:)" | head -5; rm -f $CRATE/tests/$NAME.rs; }
echo "== demo on unchanged tree" >> $LOG; run_demo >> $LOG
git apply $OUT/patch.diff >> $LOG 2>&1 || echo "PATCH DOES NOT APPLY" >> $LOG
echo "== workspace tests with patch" >> $LOG
timeout 1800 cargo test --workspace --no-fail-fast --offline 2>&1 | grep -E "^test result|error(\[|:)" | awk '/test result/ {p+=$4; f+=$6} /error/ {print} END {print "passed=" p " failed=" f}' >> $LOG
echo "== demo with patch" >> $LOG; run_demo >> $LOG
cd /; git -C /repo worktree remove --force $WT
cat $LOG
