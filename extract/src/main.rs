//! Translator: /repo sources -> Generated.lean + schema.json + gen_dispatch.rs.
//!
//! Mirrors zvt_derive's own attribute parser (same defaults: `length::Empty`,
//! `encoding::Default`; `zvt_tlv` => `length::Tlv`; optional <=> last path segment
//! `Option` or `Vec`). Everything that is table-like in the source is re-extracted on every
//! run: derive(Zvt) structs, derive(ZvtEnum) enums, `impl Sequence` declarations together with
//! the shape and the final-packet set of their `into_stream` bodies, the result-code table,
//! the firmware file-id table, and the named constants of the client.
use quote::ToTokens;
use serde_json::{json, Value};
use std::collections::{BTreeMap, HashSet};
use std::fmt::Write as _;
use syn::parse::Parser;

#[derive(Clone, Debug)]
enum Ty {
    Int(usize),
    Str,
    Bytes,
    DateTime,
    Struct(String), // module-qualified name
    Opt(Box<Ty>),
    Vec(Box<Ty>),
    Unknown(String),
}

mod shape;

#[derive(Clone, Debug)]
struct Field {
    name: String,
    rust_ty: String,
    ty: Ty,
    tag: Option<u16>,
    tag_src: Option<&'static str>,
    length: String,   // Lean term
    length_s: String, // protocol name
    encoding: String, // Lean term
    encoding_s: String,
}

#[derive(Clone, Debug)]
struct Struct {
    name: String, // module-qualified, e.g. packets::tlv::Subs
    ctrl: Option<(u8, u8)>,
    fields: Vec<Field>,
    problems: Vec<String>,
}

#[derive(Clone, Debug)]
struct Enum {
    name: String,
    has_debug: bool,
    variants: Vec<(String, String)>, // variant, struct qualified name
}

#[derive(Clone, Debug)]
struct Seq {
    name: String,
    input: String,
    output: String,
    kind: String, // once | loop | unknown:<why>
    finals: Vec<String>,
}

struct Ctx {
    structs: Vec<Struct>,
    enums: Vec<Enum>,
    seqs: Vec<Seq>,
    problems: Vec<String>,
}

fn lit_u64(e: &syn::LitInt) -> u64 {
    e.base10_parse::<u64>().unwrap()
}

fn norm(ts: impl ToTokens) -> String {
    ts.to_token_stream().to_string().replace(' ', "")
}

/// canonical text of a constant expression: integer literals in decimal (no radix prefix, `_` or type suffix),
/// durations as `secs(N)` whatever path `Duration` is written with; so that harmless rewrites of the source
/// (`0x40` -> `64`, `std::time::Duration` -> `Duration`) do not change it.
fn canon_const(ts: impl ToTokens) -> String {
    fn walk(ts: proc_macro2::TokenStream, out: &mut String) {
        for tt in ts {
            match tt {
                proc_macro2::TokenTree::Literal(l) => {
                    let t = l.to_string();
                    match syn::parse_str::<syn::LitInt>(&t) {
                        Ok(i) => match i.base10_parse::<u128>() {
                            Ok(v) => out.push_str(&v.to_string()),
                            Err(_) => out.push_str(&t),
                        },
                        Err(_) => out.push_str(&t),
                    }
                }
                proc_macro2::TokenTree::Group(g) => {
                    let (a, b) = match g.delimiter() {
                        proc_macro2::Delimiter::Parenthesis => ("(", ")"),
                        proc_macro2::Delimiter::Brace => ("{", "}"),
                        proc_macro2::Delimiter::Bracket => ("[", "]"),
                        proc_macro2::Delimiter::None => ("", ""),
                    };
                    out.push_str(a);
                    walk(g.stream(), out);
                    out.push_str(b);
                }
                other => out.push_str(&other.to_string()),
            }
        }
    }
    let mut s = String::new();
    walk(ts.to_token_stream(), &mut s);
    for p in ["std::time::Duration::from_secs", "tokio::time::Duration::from_secs", "core::time::Duration::from_secs", "Duration::from_secs"] {
        s = s.replace(p, "secs");
    }
    // the same duration written in milliseconds, or as a product of integer literals
    for p in ["std::time::Duration::from_millis", "tokio::time::Duration::from_millis", "core::time::Duration::from_millis", "Duration::from_millis"] {
        s = s.replace(p, "millis");
    }
    fn product(arg: &str) -> Option<u128> {
        let mut v: u128 = 1;
        for f in arg.split('*') {
            v = v.checked_mul(f.trim().parse::<u128>().ok()?)?;
        }
        Some(v)
    }
    let mut out = String::new();
    let mut rest = s.as_str();
    loop {
        let next = ["secs(", "millis("].iter().filter_map(|k| rest.find(k).map(|i| (i, *k))).min();
        let Some((i, k)) = next else { break };
        let after = &rest[i + k.len()..];
        let Some(j) = after.find(')') else { break };
        let val = product(&after[..j]);
        out.push_str(&rest[..i]);
        match (k, val) {
            ("secs(", Some(v)) => out.push_str(&format!("secs({v})")),
            ("millis(", Some(v)) if v % 1000 == 0 => out.push_str(&format!("secs({})", v / 1000)),
            _ => out.push_str(&rest[i..i + k.len() + j + 1]),
        }
        rest = &after[j + 1..];
    }
    out.push_str(rest);
    out
}

/// Parse `number = .., length = .., encoding = ..` (zvt_bmp) exactly like ZvtBmp::parse.
fn parse_bmp(tokens: proc_macro2::TokenStream) -> Result<(Option<u16>, Option<syn::TypePath>, Option<syn::TypePath>), String> {
    let parser = |s: syn::parse::ParseStream| -> syn::Result<(Option<u16>, Option<syn::TypePath>, Option<syn::TypePath>)> {
        let mut number = None;
        let mut length = None;
        let mut encoding = None;
        loop {
            let ident: syn::Ident = s.parse()?;
            match ident.to_string().as_str() {
                "number" => {
                    let _: syn::Token![=] = s.parse()?;
                    let v: syn::LitInt = s.parse()?;
                    number = Some(v.base10_parse::<u16>()?);
                }
                "length" => {
                    let _: syn::Token![=] = s.parse()?;
                    length = Some(s.parse()?);
                }
                "encoding" => {
                    let _: syn::Token![=] = s.parse()?;
                    encoding = Some(s.parse()?);
                }
                other => return Err(s.error(format!("Unexpected identifier: {other}"))),
            }
            if s.parse::<syn::Token![,]>().is_err() {
                break;
            }
        }
        Ok((number, length, encoding))
    };
    parser.parse2(tokens).map_err(|e| e.to_string())
}

fn parse_tlv(tokens: proc_macro2::TokenStream) -> Result<(Option<u16>, Option<syn::TypePath>), String> {
    let parser = |s: syn::parse::ParseStream| -> syn::Result<(Option<u16>, Option<syn::TypePath>)> {
        let mut tag = None;
        let mut encoding = None;
        loop {
            let ident: syn::Ident = s.parse()?;
            match ident.to_string().as_str() {
                "tag" => {
                    let _: syn::Token![=] = s.parse()?;
                    let v: syn::LitInt = s.parse()?;
                    tag = Some(v.base10_parse::<u16>()?);
                }
                "encoding" => {
                    let _: syn::Token![=] = s.parse()?;
                    encoding = Some(s.parse()?);
                }
                other => return Err(s.error(format!("Unexpected identifier: {other}"))),
            }
            if s.is_empty() {
                break;
            }
            s.parse::<syn::Token![,]>()?;
        }
        Ok((tag, encoding))
    };
    parser.parse2(tokens).map_err(|e| e.to_string())
}

fn parse_ctrl(tokens: proc_macro2::TokenStream) -> Result<(u8, u8), String> {
    let parser = |s: syn::parse::ParseStream| -> syn::Result<(u8, u8)> {
        let mut class = None;
        let mut instr = None;
        loop {
            let ident: syn::Ident = s.parse()?;
            let _: syn::Token![=] = s.parse()?;
            let v: syn::LitInt = s.parse()?;
            match ident.to_string().as_str() {
                "class" => class = Some(v.base10_parse::<u8>()?),
                "instr" => instr = Some(v.base10_parse::<u8>()?),
                other => return Err(s.error(format!("Unexpected identifier: {other}"))),
            }
            if s.is_empty() {
                break;
            }
            s.parse::<syn::Token![,]>()?;
        }
        Ok((class.ok_or(s.error("class"))?, instr.ok_or(s.error("instr"))?))
    };
    parser.parse2(tokens).map_err(|e| e.to_string())
}

fn length_term(tp: &Option<syn::TypePath>) -> (String, String) {
    let Some(tp) = tp else { return (".empty".into(), "empty".into()) };
    let last = tp.path.segments.last().unwrap();
    let name = last.ident.to_string();
    match name.as_str() {
        "Empty" => (".empty".into(), "empty".into()),
        "Tlv" => (".tlv".into(), "tlv".into()),
        "Llv" => ("(.llv 2)".into(), "llv:2".into()),
        "Lllv" => ("(.llv 3)".into(), "llv:3".into()),
        "Adpu" => (".adpu".into(), "adpu".into()),
        "Temperature" => (".temperature".into(), "temperature".into()),
        "Fixed" | "LlvImpl" => {
            if let syn::PathArguments::AngleBracketed(a) = &last.arguments {
                if let Some(syn::GenericArgument::Const(syn::Expr::Lit(l))) = a.args.first() {
                    if let syn::Lit::Int(i) = &l.lit {
                        let n = lit_u64(i);
                        return if name == "Fixed" {
                            (format!("(.fixed {n})"), format!("fixed:{n}"))
                        } else {
                            (format!("(.llv {n})"), format!("llv:{n}"))
                        };
                    }
                }
            }
            (format!("(.unknown \"{}\")", norm(tp)), format!("unknown:{}", norm(tp)))
        }
        _ => (format!("(.unknown \"{}\")", norm(tp)), format!("unknown:{}", norm(tp))),
    }
}

fn encoding_term(tp: &Option<syn::TypePath>) -> (String, String) {
    let Some(tp) = tp else { return (".dflt".into(), "dflt".into()) };
    let name = tp.path.segments.last().unwrap().ident.to_string();
    match name.as_str() {
        "Default" => (".dflt".into(), "dflt".into()),
        "BigEndian" => (".bigEndian".into(), "be".into()),
        "Bcd" => (".bcd".into(), "bcd".into()),
        "Hex" => (".hex".into(), "hex".into()),
        "Utf8" => (".utf8".into(), "utf8".into()),
        "Custom" => (".custom".into(), "custom".into()),
        "PartialReversalReceiptNo" => (".prrn".into(), "prrn".into()),
        _ => (format!("(.unknown \"{}\")", norm(tp)), format!("unknown:{}", norm(tp))),
    }
}

/// resolve a struct path relative to `module` (e.g. "packets") against the known struct names.
fn resolve(module: &str, path: &syn::Path, known: &HashSet<String>) -> Option<String> {
    let segs: Vec<String> = path
        .segments
        .iter()
        .map(|s| s.ident.to_string())
        .filter(|s| s != "crate" && s != "super" && s != "self" && s != "zvt")
        .collect();
    let tail = segs.join("::");
    let mut m: Vec<&str> = if module.is_empty() { vec![] } else { module.split("::").collect() };
    loop {
        let cand = if m.is_empty() { tail.clone() } else { format!("{}::{}", m.join("::"), tail) };
        if known.contains(&cand) {
            return Some(cand);
        }
        if m.is_empty() {
            return None;
        }
        m.pop();
    }
}

fn rust_ty(module: &str, ty: &syn::Type, enc_is_custom: bool, known: &HashSet<String>) -> Ty {
    let syn::Type::Path(tp) = ty else { return Ty::Unknown(norm(ty)) };
    let last = tp.path.segments.last().unwrap();
    let name = last.ident.to_string();
    let inner = || -> Option<&syn::Type> {
        if let syn::PathArguments::AngleBracketed(a) = &last.arguments {
            if let Some(syn::GenericArgument::Type(t)) = a.args.first() {
                return Some(t);
            }
        }
        None
    };
    match name.as_str() {
        "u8" => Ty::Int(1),
        "u16" => Ty::Int(2),
        "u32" => Ty::Int(4),
        "u64" | "usize" => Ty::Int(8),
        "String" => Ty::Str,
        "NaiveDateTime" => Ty::DateTime,
        "Option" => match inner() {
            Some(t) => Ty::Opt(Box::new(rust_ty(module, t, enc_is_custom, known))),
            None => Ty::Unknown(norm(ty)),
        },
        "Vec" => match inner() {
            Some(t) => {
                let it = rust_ty(module, t, enc_is_custom, known);
                if enc_is_custom && matches!(it, Ty::Int(1)) {
                    Ty::Bytes
                } else {
                    Ty::Vec(Box::new(it))
                }
            }
            None => Ty::Unknown(norm(ty)),
        },
        _ => match resolve(module, &tp.path, known) {
            Some(q) => Ty::Struct(q),
            None => Ty::Unknown(norm(ty)),
        },
    }
}

fn has_derive(attrs: &[syn::Attribute], what: &str) -> bool {
    attrs.iter().any(|a| {
        a.path().is_ident("derive") && a.meta.to_token_stream().to_string().split(|c: char| !c.is_alphanumeric()).any(|w| w == what)
    })
}

fn is_cfg_test(attrs: &[syn::Attribute]) -> bool {
    attrs.iter().any(|a| a.path().is_ident("cfg") && norm(&a.meta).contains("test"))
}

fn lean_ident(q: &str) -> String {
    q.replace("::", "_")
}

fn ty_lean(t: &Ty) -> String {
    match t {
        Ty::Int(w) => format!("(.int {w})"),
        Ty::Str => ".str".into(),
        Ty::Bytes => ".bytes".into(),
        Ty::DateTime => ".dateTime".into(),
        Ty::Struct(q) => format!("(.struct {}.fields)", lean_ident(q)),
        Ty::Opt(t) => format!("(.opt {})", ty_lean(t)),
        Ty::Vec(t) => format!("(.vec {})", ty_lean(t)),
        Ty::Unknown(s) => format!("(.struct [.mk \"?{}\" none (.unknown \"type\") (.unknown \"type\") (.int 0)])", s.replace('"', "'")),
    }
}

fn ty_json(t: &Ty) -> Value {
    match t {
        Ty::Int(w) => json!({"k": "int", "w": w}),
        Ty::Str => json!({"k": "str"}),
        Ty::Bytes => json!({"k": "bytes"}),
        Ty::DateTime => json!({"k": "dt"}),
        Ty::Struct(q) => json!({"k": "struct", "name": q}),
        Ty::Opt(t) => json!({"k": "opt", "t": ty_json(t)}),
        Ty::Vec(t) => json!({"k": "vec", "t": ty_json(t)}),
        Ty::Unknown(s) => json!({"k": "unknown", "s": s}),
    }
}

fn struct_deps(t: &Ty, out: &mut Vec<String>) {
    match t {
        Ty::Struct(q) => out.push(q.clone()),
        Ty::Opt(t) | Ty::Vec(t) => struct_deps(t, out),
        _ => {}
    }
}

fn lean_str(s: &str) -> String {
    format!("\"{}\"", s.replace('\\', "\\\\").replace('"', "\\\""))
}

/// Collect the items of one source file.
fn scan_file(module: &str, file: &syn::File, raw_structs: &mut Vec<(String, syn::ItemStruct)>, raw_enums: &mut Vec<(String, syn::ItemEnum)>, impls: &mut Vec<(String, syn::ItemImpl)>) {
    for item in &file.items {
        match item {
            syn::Item::Struct(s) if has_derive(&s.attrs, "Zvt") => raw_structs.push((module.to_string(), s.clone())),
            syn::Item::Enum(e) if has_derive(&e.attrs, "ZvtEnum") => raw_enums.push((module.to_string(), e.clone())),
            syn::Item::Impl(i) => impls.push((module.to_string(), i.clone())),
            syn::Item::Mod(m) if is_cfg_test(&m.attrs) => {}
            _ => {}
        }
    }
}

/// the tokens of the `try_stream!` inside a function body
fn try_stream_tokens(block: &syn::Block) -> Option<proc_macro2::TokenStream> {
    struct Finder(Option<proc_macro2::TokenStream>);
    impl<'ast> syn::visit::Visit<'ast> for Finder {
        fn visit_macro(&mut self, m: &'ast syn::Macro) {
            if m.path.segments.last().map(|s| s.ident == "try_stream").unwrap_or(false) {
                self.0 = Some(m.tokens.clone());
            }
        }
    }
    let mut finder = Finder(None);
    syn::visit::visit_block(&mut finder, block);
    finder.0
}

/// Classify an `into_stream` body by evaluating it once per variant of the reply enum (see shape.rs).
/// Returns (kind, finals).
fn classify_into_stream(f: &syn::ImplItemFn, enum_name: &str, variants: &[String], helpers: &shape::Helpers, rpwa_ok: bool, file: Option<&syn::File>) -> (String, Vec<String>) {
    classify_body(&f.block, enum_name, variants, helpers, rpwa_ok, file)
}

/// The body itself holds the `try_stream!`, or it delegates to a free function of the same file that does
/// (`reply_stream(input, src, |p| matches!(p, ..))`): then that function's body is evaluated with the arguments bound to its
/// parameters — closures for its function parameters, the connection and the command under the helper's own names.
fn classify_body(block: &syn::Block, enum_name: &str, variants: &[String], helpers: &shape::Helpers, rpwa_ok: bool, file: Option<&syn::File>) -> (String, Vec<String>) {
    if let Some(t) = try_stream_tokens(block) {
        return shape::classify(t, enum_name, variants, helpers, rpwa_ok);
    }
    let tail = block.stmts.iter().rev().find_map(|s| match s {
        syn::Stmt::Expr(e, _) => Some(e),
        _ => None,
    });
    let (Some(syn::Expr::Call(call)), Some(file)) = (tail, file) else { return ("unknown:no try_stream".into(), vec![]) };
    let syn::Expr::Path(fp) = &*call.func else { return ("unknown:no try_stream".into(), vec![]) };
    let Some(fname) = fp.path.segments.last().map(|s| s.ident.to_string()) else { return ("unknown:no try_stream".into(), vec![]) };
    for item in &file.items {
        if let syn::Item::Fn(hf) = item {
            if hf.sig.ident == fname && hf.sig.inputs.len() == call.args.len() {
                let Some(tokens) = try_stream_tokens(&hf.block) else { continue };
                let mut closures = shape::Closures::new();
                let (mut conn, mut input) = (String::new(), String::new());
                for (p, a) in hf.sig.inputs.iter().zip(call.args.iter()) {
                    let syn::FnArg::Typed(pt) = p else { return ("unknown:helper with receiver".into(), vec![]) };
                    let syn::Pat::Ident(pi) = &*pt.pat else { return ("unknown:helper parameter pattern".into(), vec![]) };
                    let pname = pi.ident.to_string();
                    let mut a = a;
                    while let syn::Expr::Reference(r) = a {
                        a = &r.expr;
                    }
                    match a {
                        syn::Expr::Closure(c) => {
                            closures.insert(pname, c.clone());
                        }
                        syn::Expr::Path(ap) if ap.path.is_ident("src") => conn = pname,
                        syn::Expr::Path(ap) if ap.path.is_ident("input") => input = pname,
                        other => return (format!("unknown:helper argument {}", shape::norm(other)), vec![]),
                    }
                }
                if conn.is_empty() || input.is_empty() {
                    return ("unknown:helper is not given connection and command".into(), vec![]);
                }
                return shape::classify_in(tokens, enum_name, variants, helpers, rpwa_ok, &closures, &conn, &input);
            }
        }
    }
    ("unknown:no try_stream".into(), vec![])
}

/// The default `Sequence::into_stream` in the trait definition must be a "once" body: command + acknowledgement, one
/// reply read, acknowledged and yielded.
fn check_default_into_stream(file: &syn::File, rpwa_ok: bool) -> Result<(), String> {
    let helpers = shape::collect_helpers(file);
    for item in &file.items {
        if let syn::Item::Trait(t) = item {
            if t.ident == "Sequence" {
                for ti in &t.items {
                    if let syn::TraitItem::Fn(f) = ti {
                        if f.sig.ident == "into_stream" {
                            let body = f.default.as_ref().ok_or("no default body")?;
                            let (kind, _) = classify_body(body, "Output", &["AnyReply".to_string()], &helpers, rpwa_ok, Some(file));
                            if kind == "unknown:no try_stream" {
                                return Err("default into_stream without try_stream".into());
                            }
                            if kind == "once" {
                                return Ok(());
                            }
                            return Err(format!("default into_stream body is not `command, one reply` ({kind}): {}", shape::norm(body)));
                        }
                    }
                }
            }
        }
    }
    Err("trait Sequence not found".into())
}

fn main() {
    let mut args: Vec<String> = std::env::args().collect();
    let lab = args.get(1).map(|a| a == "--lab").unwrap_or(false);
    if lab {
        args.remove(1);
    }
    let repo = args.get(1).cloned().unwrap_or("/repo".into());
    let out_lean = args.get(2).cloned().unwrap_or("/verif/lean/ZvtVerif/Generated.lean".into());
    let out_json = args.get(3).cloned().unwrap_or("/verif/.build/gen/schema.json".into());
    let out_rs = args.get(4).cloned().unwrap_or("/verif/harness/src/gen_dispatch.rs".into());
    let (lean_ns, tyroot) = if lab { ("Zvt.Lab", "crate") } else { ("Zvt.Generated", "zvt") };

    let files_repo = [
        ("packets", "zvt/src/packets.rs"),
        ("packets::tlv", "zvt/src/packets/tlv.rs"),
        ("feig::packets", "zvt/src/feig/packets/mod.rs"),
        ("feig::packets::tlv", "zvt/src/feig/packets/tlv.rs"),
        ("io", "zvt/src/io.rs"),
        ("sequences", "zvt/src/sequences.rs"),
        ("feig::sequences", "zvt/src/feig/sequences.rs"),
    ];
    let files: Vec<(&str, String)> = if lab {
        vec![("lab", repo.clone())]
    } else {
        files_repo.iter().map(|(m, p)| (*m, format!("{repo}/{p}"))).collect()
    };
    let mut raw_structs = vec![];
    let mut raw_enums = vec![];
    let mut impls = vec![];
    let mut problems: Vec<String> = vec![];
    let mut parsed: BTreeMap<String, syn::File> = BTreeMap::new();
    for (module, path) in files {
        let src = std::fs::read_to_string(&path).unwrap_or_else(|e| {
            problems.push(format!("cannot read {path}: {e}"));
            String::new()
        });
        match syn::parse_file(&src) {
            Ok(f) => {
                scan_file(module, &f, &mut raw_structs, &mut raw_enums, &mut impls);
                parsed.insert(module.to_string(), f);
            }
            Err(e) => problems.push(format!("cannot parse {path}: {e}")),
        }
    }
    let known: HashSet<String> = raw_structs.iter().map(|(m, s)| format!("{m}::{}", s.ident)).collect();

    // ---- structs
    let mut structs: Vec<Struct> = vec![];
    for (module, s) in &raw_structs {
        let q = format!("{module}::{}", s.ident);
        let mut st = Struct { name: q.clone(), ctrl: None, fields: vec![], problems: vec![] };
        for a in &s.attrs {
            if a.path().is_ident("zvt_control_field") {
                if let syn::Meta::List(l) = &a.meta {
                    match parse_ctrl(l.tokens.clone()) {
                        Ok(c) => st.ctrl = Some(c),
                        Err(e) => st.problems.push(format!("control field: {e}")),
                    }
                }
            }
        }
        let syn::Fields::Named(named) = &s.fields else {
            st.problems.push("not a named struct".into());
            structs.push(st);
            continue;
        };
        for f in &named.named {
            let name = f.ident.as_ref().unwrap().to_string();
            let zattrs: Vec<&syn::Attribute> = f.attrs.iter().filter(|a| !a.path().is_ident("doc")).collect();
            let (mut tag, mut tag_src, mut len, mut enc) = (None, None, None, None);
            let mut force_tlv = false;
            match zattrs.len() {
                0 => {}
                1 => {
                    let a = zattrs[0];
                    let an = a.path().get_ident().map(|i| i.to_string()).unwrap_or_default();
                    if let syn::Meta::List(l) = &a.meta {
                        match an.as_str() {
                            "zvt_bmp" => match parse_bmp(l.tokens.clone()) {
                                Ok((n, le, en)) => {
                                    tag = n;
                                    if n.is_some() {
                                        tag_src = Some("bmp");
                                    }
                                    len = le;
                                    enc = en;
                                }
                                Err(e) => st.problems.push(format!("{name}: {e}")),
                            },
                            "zvt_tlv" => match parse_tlv(l.tokens.clone()) {
                                Ok((n, en)) => {
                                    tag = n;
                                    if n.is_some() {
                                        tag_src = Some("tlv");
                                    }
                                    enc = en;
                                    force_tlv = true;
                                }
                                Err(e) => st.problems.push(format!("{name}: {e}")),
                            },
                            other => st.problems.push(format!("{name}: unsupported attribute {other}")),
                        }
                    } else {
                        st.problems.push(format!("{name}: non-list attribute"));
                    }
                }
                _ => st.problems.push(format!("{name}: more than one attribute")),
            }
            // NB: the macro counts *all* attributes (f.attrs.len()), doc comments included.
            if f.attrs.len() != zattrs.len() && f.attrs.len() > 1 {
                st.problems.push(format!("{name}: doc attribute next to a zvt attribute (macro panics)"));
            }
            let (length, length_s) = if force_tlv { (".tlv".to_string(), "tlv".to_string()) } else { length_term(&len) };
            let (encoding, encoding_s) = encoding_term(&enc);
            let ty = rust_ty(module, &f.ty, encoding_s == "custom", &known);
            st.fields.push(Field { name, rust_ty: norm(&f.ty), ty, tag, tag_src, length, length_s, encoding, encoding_s });
        }
        structs.push(st);
    }
    // topological order (dependencies first), stable
    let mut ordered: Vec<Struct> = vec![];
    let mut done: HashSet<String> = HashSet::new();
    fn visit(q: &str, structs: &Vec<Struct>, done: &mut HashSet<String>, ordered: &mut Vec<Struct>, depth: usize) {
        if done.contains(q) || depth > 50 {
            return;
        }
        let Some(s) = structs.iter().find(|s| s.name == q) else { return };
        done.insert(q.to_string());
        let mut deps = vec![];
        for f in &s.fields {
            struct_deps(&f.ty, &mut deps);
        }
        for d in deps {
            visit(&d, structs, done, ordered, depth + 1);
        }
        ordered.push(s.clone());
    }
    for s in &structs {
        visit(&s.name, &structs, &mut done, &mut ordered, 0);
    }

    // ---- enums
    let mut enums: Vec<Enum> = vec![];
    for (module, e) in &raw_enums {
        let mut en = Enum { name: format!("{module}::{}", e.ident), has_debug: has_derive(&e.attrs, "Debug"), variants: vec![] };
        for v in &e.variants {
            let syn::Fields::Unnamed(u) = &v.fields else {
                problems.push(format!("{}: variant {} is not a tuple variant", en.name, v.ident));
                continue;
            };
            let syn::Type::Path(tp) = &u.unnamed[0].ty else { continue };
            match resolve(module, &tp.path, &known) {
                Some(q) => en.variants.push((v.ident.to_string(), q)),
                None => problems.push(format!("{}: cannot resolve {}", en.name, norm(tp))),
            }
        }
        enums.push(en);
    }
    let known_enums: HashSet<String> = enums.iter().map(|e| e.name.clone()).collect();

    // ---- sequences
    let rpwa_ok = parsed.get("io").map(shape::read_packet_with_ack_ok).unwrap_or(false);
    let mut seqs: Vec<Seq> = vec![];
    for (module, i) in &impls {
        let Some((_, tr, _)) = &i.trait_ else { continue };
        if tr.segments.last().unwrap().ident != "Sequence" {
            continue;
        }
        let syn::Type::Path(selfty) = &*i.self_ty else { continue };
        let name = format!("{module}::{}", selfty.path.segments.last().unwrap().ident);
        let mut input = String::new();
        let mut output = String::new();
        let mut kind = "once".to_string();
        let mut finals = vec![];
        for it in &i.items {
            if let syn::ImplItem::Type(t) = it {
                if let syn::Type::Path(tp) = &t.ty {
                    if t.ident == "Input" {
                        input = resolve(module, &tp.path, &known).unwrap_or_else(|| format!("?{}", norm(tp)));
                    } else if t.ident == "Output" {
                        let segs: Vec<String> = tp.path.segments.iter().map(|s| s.ident.to_string()).filter(|s| s != "crate" && s != "super").collect();
                        let tail = segs.join("::");
                        let cands = [format!("{module}::{tail}"), tail.clone(), format!("feig::{tail}")];
                        output = cands.iter().find(|c| known_enums.contains(*c)).cloned().unwrap_or_else(|| format!("?{tail}"));
                    }
                }
            }
        }
        for it in &i.items {
            if let syn::ImplItem::Fn(f) = it {
                if f.sig.ident == "into_stream" {
                    let variants: Vec<String> = enums.iter().find(|e| e.name == output).map(|e| e.variants.iter().map(|(v, _)| v.clone()).collect()).unwrap_or_default();
                    let helpers = parsed.get(module.as_str()).map(shape::collect_helpers).unwrap_or_default();
                    let enum_last = output.rsplit("::").next().unwrap_or("").to_string();
                    let (k, fs) = classify_into_stream(f, &enum_last, &variants, &helpers, rpwa_ok, parsed.get(module.as_str()));
                    kind = k;
                    finals = fs;
                }
            }
        }
        // canonical order of the final variants: the order in which the reply enum declares them (the or-pattern may list
        // them in any order), each once
        if let Some(en) = enums.iter().find(|e| e.name == output) {
            let pos = |f: &String| en.variants.iter().position(|(v, _)| v == f).unwrap_or(usize::MAX);
            finals.sort_by_key(pos);
            finals.dedup();
        }
        seqs.push(Seq { name, input, output, kind, finals });
    }
    if !lab {
        match parsed.get("sequences") {
            Some(f) => {
                if let Err(e) = check_default_into_stream(f, rpwa_ok) {
                    problems.push(e);
                }
            }
            None => problems.push("sequences.rs not parsed".into()),
        }
    }

    // ---- error table
    let mut errors: Vec<(u64, String, String)> = vec![];
    if !lab { match std::fs::read_to_string(format!("{repo}/zvt/src/constants.rs")).map_err(|e| e.to_string()).and_then(|s| syn::parse_file(&s).map_err(|e| e.to_string())) {
        Ok(f) => {
            let mut disc: BTreeMap<String, u64> = BTreeMap::new();
            let mut order: Vec<String> = vec![];
            let mut msgs: BTreeMap<String, String> = BTreeMap::new();
            for item in &f.items {
                match item {
                    syn::Item::Enum(e) if e.ident == "ErrorMessages" => {
                        for v in &e.variants {
                            if let Some((_, syn::Expr::Lit(l))) = &v.discriminant {
                                if let syn::Lit::Int(i) = &l.lit {
                                    disc.insert(v.ident.to_string(), lit_u64(i));
                                    order.push(v.ident.to_string());
                                }
                            } else {
                                problems.push(format!("ErrorMessages::{} without literal discriminant", v.ident));
                            }
                        }
                    }
                    syn::Item::Impl(i) => {
                        if i.trait_.as_ref().map(|t| t.1.segments.last().unwrap().ident == "Display").unwrap_or(false) {
                            struct V<'a>(&'a mut BTreeMap<String, String>);
                            impl<'ast, 'a> syn::visit::Visit<'ast> for V<'a> {
                                fn visit_arm(&mut self, a: &'ast syn::Arm) {
                                    let pat = norm(&a.pat);
                                    if let Some(v) = pat.strip_prefix("Self::") {
                                        if let syn::Expr::Macro(m) = &*a.body {
                                            let toks: Vec<proc_macro2::TokenTree> = m.mac.tokens.clone().into_iter().collect();
                                            if let Some(proc_macro2::TokenTree::Literal(l)) = toks.last() {
                                                if let Ok(syn::Lit::Str(s)) = syn::parse_str::<syn::Lit>(&l.to_string()) {
                                                    self.0.insert(v.to_string(), s.value());
                                                }
                                            }
                                        }
                                    }
                                }
                            }
                            syn::visit::visit_item_impl(&mut V(&mut msgs), i);
                        }
                    }
                    _ => {}
                }
            }
            for v in order {
                let m = msgs.get(&v).cloned().unwrap_or_else(|| {
                    problems.push(format!("no Display message for {v}"));
                    String::new()
                });
                errors.push((disc[&v], v, m));
            }
        }
        Err(e) => problems.push(format!("constants.rs: {e}")),
    }
        // the declaration is not in a spelling the static reader understands (e.g. the enum and its messages come out of a macro):
        // the flow then RUNS the code (`/verif/tablegen`: from_u8 + Debug + Display for every byte) and hands the table in
        let bad = |p: &String| p.starts_with("ErrorMessages") || p.starts_with("no Display message") || p.starts_with("constants.rs");
        if errors.is_empty() || problems.iter().any(bad) {
            match std::env::var("ZVT_ERRORS_TSV").ok().and_then(|f| std::fs::read_to_string(f).ok()) {
                Some(tsv) => {
                    problems.retain(|p| !bad(p));
                    errors.clear();
                    for line in tsv.lines() {
                        let f: Vec<&str> = line.splitn(3, '\t').collect();
                        if f.len() == 3 {
                            errors.push((f[0].parse().unwrap_or(0), f[1].to_string(), f[2].to_string()));
                        }
                    }
                }
                None => {
                    if errors.is_empty() {
                        problems.push("ErrorMessages: the result-code table was not found in constants.rs".into());
                    }
                }
            }
        }
    }

    // ---- file ids (convert_dir) and client constants
    let mut file_ids: Vec<(String, u64)> = vec![];
    if let Some(f) = parsed.get("feig::sequences") {
        // the table `(path, id)` of convert_dir: an array of pairs (string or `Path::new(string)`, integer literal), inside the
        // function or in a constant next to it
        struct V<'a>(&'a mut Vec<(String, u64)>);
        impl<'ast, 'a> syn::visit::Visit<'ast> for V<'a> {
            fn visit_expr_tuple(&mut self, t: &'ast syn::ExprTuple) {
                if t.elems.len() == 2 {
                    let a = norm(&t.elems[0]);
                    let path = a.strip_prefix("Path::new(\"").and_then(|x| x.strip_suffix("\")"))
                        .or_else(|| a.strip_prefix("std::path::Path::new(\"").and_then(|x| x.strip_suffix("\")")))
                        .or_else(|| a.strip_prefix('"').and_then(|x| x.strip_suffix('"')));
                    if let (Some(p), syn::Expr::Lit(l)) = (path, &t.elems[1]) {
                        if let syn::Lit::Int(i) = &l.lit {
                            self.0.push((p.to_string(), lit_u64(i)));
                        }
                    }
                }
            }
            fn visit_item_mod(&mut self, m: &'ast syn::ItemMod) {
                if !is_cfg_test(&m.attrs) {
                    syn::visit::visit_item_mod(self, m);
                }
            }
        }
        syn::visit::visit_file(&mut V(&mut file_ids), f);
    }
    if file_ids.is_empty() && !lab {
        problems.push("convert_dir table not found".into());
    }

    let mut consts: BTreeMap<String, Value> = BTreeMap::new();
    let grab_consts = |path: &str, consts: &mut BTreeMap<String, Value>, problems: &mut Vec<String>| {
        let Ok(src) = std::fs::read_to_string(format!("{repo}/{path}")) else {
            problems.push(format!("cannot read {path}"));
            return;
        };
        let Ok(f) = syn::parse_file(&src) else {
            problems.push(format!("cannot parse {path}"));
            return;
        };
        struct V<'a>(&'a mut BTreeMap<String, Value>, Vec<String>, BTreeMap<String, Vec<String>>);
        impl<'ast, 'a> syn::visit::Visit<'ast> for V<'a> {
            // free functions too: a retry budget may be built by a helper (`fn default_retry()`) that `into_stream` calls
            fn visit_item_fn(&mut self, f: &'ast syn::ItemFn) {
                self.1.push(f.sig.ident.to_string());
                syn::visit::visit_item_fn(self, f);
                self.1.pop();
            }
            fn visit_expr_call(&mut self, c: &'ast syn::ExprCall) {
                if let (Some(cur), syn::Expr::Path(p)) = (self.1.last().cloned(), &*c.func) {
                    if let Some(last) = p.path.segments.last() {
                        self.2.entry(cur).or_default().push(last.ident.to_string());
                    }
                }
                syn::visit::visit_expr_call(self, c);
            }
            fn visit_item_const(&mut self, c: &'ast syn::ItemConst) {
                self.0.insert(c.ident.to_string(), Value::String(canon_const(&c.expr)));
            }
            fn visit_item_mod(&mut self, m: &'ast syn::ItemMod) {
                if !is_cfg_test(&m.attrs) {
                    syn::visit::visit_item_mod(self, m);
                }
            }
            fn visit_impl_item_fn(&mut self, f: &'ast syn::ImplItemFn) {
                self.1.push(f.sig.ident.to_string());
                syn::visit::visit_impl_item_fn(self, f);
                self.1.pop();
            }
            fn visit_trait_item_fn(&mut self, f: &'ast syn::TraitItemFn) {
                self.1.push(f.sig.ident.to_string());
                syn::visit::visit_trait_item_fn(self, f);
                self.1.pop();
            }
            // the retry budget: `<stream>.throttle(<duration>).take(<n>)` inside a function
            fn visit_expr_method_call(&mut self, m: &'ast syn::ExprMethodCall) {
                if m.method == "take" {
                    if let syn::Expr::MethodCall(inner) = &*m.receiver {
                        if inner.method == "throttle" {
                            let f = self.1.last().cloned().unwrap_or_default();
                            let thr = inner.args.first().map(|e| canon_const(e)).unwrap_or_default();
                            let take = m.args.first().map(|e| canon_const(e)).unwrap_or_default();
                            self.0.insert(format!("RETRY[{f}]"), Value::String(format!("throttle={thr} take={take}")));
                        }
                    }
                }
                syn::visit::visit_expr_method_call(self, m);
            }
        }
        let mut v = V(consts, Vec::new(), BTreeMap::new());
        syn::visit::visit_file(&mut v, &f);
        // a function that takes its budget from a helper of the same file inherits the helper's budget
        let calls = v.2.clone();
        for (caller, callees) in calls {
            if !v.0.contains_key(&format!("RETRY[{caller}]")) {
                for callee in callees {
                    if let Some(b) = v.0.get(&format!("RETRY[{callee}]")).cloned() {
                        v.0.insert(format!("RETRY[{caller}]"), b);
                        break;
                    }
                }
            }
        }
    };
    if !lab {
        grab_consts("zvt_feig_terminal/src/feig.rs", &mut consts, &mut problems);
        grab_consts("zvt_feig_terminal/src/stream.rs", &mut consts, &mut problems);
        // a retry budget spelled with named constants (`throttle(RETRY_DELAY).take(RETRY_ATTEMPTS)`): their values
        let snapshot = consts.clone();
        for (k, v) in consts.iter_mut() {
            if k.starts_with("RETRY[") {
                if let Value::String(sv) = v {
                    let resolved: Vec<String> = sv
                        .split(' ')
                        .map(|part| match part.split_once('=') {
                            Some((lhs, rhs)) => {
                                let name = rhs.rsplit("::").next().unwrap_or(rhs);
                                match snapshot.get(name) {
                                    Some(Value::String(val)) if !name.starts_with("RETRY[") => format!("{lhs}={val}"),
                                    _ => part.to_string(),
                                }
                            }
                            None => part.to_string(),
                        })
                        .collect();
                    *sv = resolved.join(" ");
                }
            }
        }
    }

    for s in &ordered {
        for p in &s.problems {
            problems.push(format!("{}: {p}", s.name));
        }
    }
    for s in &seqs {
        if s.kind.starts_with("unknown") {
            problems.push(format!("sequence {}: {}", s.name, s.kind));
        }
    }

    // ================= outputs =================
    // ---- schema.json
    let j = json!({
        "structs": ordered.iter().map(|s| json!({
            "name": s.name,
            "ctrl": s.ctrl.map(|c| vec![c.0, c.1]),
            "fields": s.fields.iter().map(|f| json!({
                "name": f.name, "rust_ty": f.rust_ty, "ty": ty_json(&f.ty), "tag": f.tag, "tag_src": f.tag_src,
                "length": f.length_s, "encoding": f.encoding_s,
            })).collect::<Vec<_>>(),
        })).collect::<Vec<_>>(),
        "enums": enums.iter().map(|e| json!({"name": e.name, "variants": e.variants.iter().map(|(v, t)| json!({"name": v, "ty": t})).collect::<Vec<_>>()})).collect::<Vec<_>>(),
        "sequences": seqs.iter().map(|s| json!({"name": s.name, "input": s.input, "output": s.output, "kind": s.kind, "finals": s.finals})).collect::<Vec<_>>(),
        "errors": errors.iter().map(|(c, v, m)| json!({"code": c, "variant": v, "message": m})).collect::<Vec<_>>(),
        "file_ids": file_ids.iter().map(|(p, i)| json!({"path": p, "id": i})).collect::<Vec<_>>(),
        "consts": consts,
        "problems": problems,
    });
    if let Some(dir) = std::path::Path::new(&out_json).parent() {
        std::fs::create_dir_all(dir).ok();
    }
    write_if_changed(&out_json, &serde_json::to_string_pretty(&j).unwrap());

    // ---- Generated.lean
    let mut l = String::new();
    writeln!(l, "/- GENERATED by /verif/extract from the /repo sources on every check run. Do not edit. -/").unwrap();
    writeln!(l, "import ZvtVerif.Schema\nnamespace {lean_ns}\nopen Zvt\n").unwrap();
    for s in &ordered {
        let ctrl = match s.ctrl {
            Some((c, i)) => format!("(some ({c}, {i}))"),
            None => "none".into(),
        };
        writeln!(l, "def {} : StructDef := ⟨{}, {}, [", lean_ident(&s.name), lean_str(&s.name), ctrl).unwrap();
        let n = s.fields.len();
        for (k, f) in s.fields.iter().enumerate() {
            let tag = match f.tag {
                Some(t) => format!("(some 0x{t:x})"),
                None => "none".into(),
            };
            writeln!(l, "  .mk {} {} {} {} {}{}", lean_str(&f.name), tag, f.length, f.encoding, ty_lean(&f.ty), if k + 1 < n { "," } else { "" }).unwrap();
        }
        writeln!(l, "]⟩\n").unwrap();
    }
    writeln!(l, "def shipped : List StructDef := [{}]\n", ordered.iter().map(|s| lean_ident(&s.name)).collect::<Vec<_>>().join(",\n  ")).unwrap();
    for e in &enums {
        writeln!(l, "def {} : EnumDef := ⟨{}, [{}]⟩\n", lean_ident(&e.name), lean_str(&e.name), e.variants.iter().map(|(v, t)| format!("({}, {})", lean_str(v), lean_ident(t))).collect::<Vec<_>>().join(", ")).unwrap();
    }
    writeln!(l, "def enums : List EnumDef := [{}]\n", enums.iter().map(|e| lean_ident(&e.name)).collect::<Vec<_>>().join(",\n  ")).unwrap();
    writeln!(l, "/-- (name, input struct, output enum, kind, final variants) of every `impl Sequence`. -/").unwrap();
    writeln!(l, "def sequences : List (String × String × String × String × List String) := [").unwrap();
    let ns = seqs.len();
    for (k, s) in seqs.iter().enumerate() {
        writeln!(l, "  ({}, {}, {}, {}, [{}]){}", lean_str(&s.name), lean_str(&s.input), lean_str(&s.output), lean_str(&s.kind), s.finals.iter().map(|f| lean_str(f)).collect::<Vec<_>>().join(", "), if k + 1 < ns { "," } else { "" }).unwrap();
    }
    writeln!(l, "]\n").unwrap();
    writeln!(l, "/-- (code, variant, Display message) of `constants::ErrorMessages`. -/").unwrap();
    writeln!(l, "def errorTable : List (Nat × String × String) := [").unwrap();
    let ne = errors.len();
    for (k, (c, v, m)) in errors.iter().enumerate() {
        writeln!(l, "  (0x{c:x}, {}, {}){}", lean_str(v), lean_str(m), if k + 1 < ne { "," } else { "" }).unwrap();
    }
    writeln!(l, "]\n").unwrap();
    writeln!(l, "/-- `convert_dir`: recognised payload paths and their file ids. -/").unwrap();
    writeln!(l, "def fileIds : List (String × Nat) := [{}]\n", file_ids.iter().map(|(p, i)| format!("({}, 0x{i:x})", lean_str(p))).collect::<Vec<_>>().join(", ")).unwrap();
    writeln!(l, "/-- named constants of the client as source text. -/").unwrap();
    writeln!(l, "def consts : List (String × String) := [{}]\n", consts.iter().map(|(k, v)| format!("({}, {})", lean_str(k), lean_str(v.as_str().unwrap()))).collect::<Vec<_>>().join(",\n  ")).unwrap();
    writeln!(l, "/-- constructs the translator could not translate (must be empty). -/").unwrap();
    writeln!(l, "def problems : List String := [{}]\n", problems.iter().map(|p| lean_str(p)).collect::<Vec<_>>().join(",\n  ")).unwrap();
    // the problems that concern packet types and reply enums (the tables C03 is about)
    let layout_problems: Vec<&String> = problems.iter().filter(|p| !(p.starts_with("sequence ") || p.contains("into_stream") || p.starts_with("trait Sequence") || p.starts_with("convert_dir") || p.starts_with("ErrorMessages") || p.starts_with("no Display message") || p.starts_with("constants.rs"))).collect();
    writeln!(l, "def layoutProblems : List String := [{}]\n", layout_problems.iter().map(|p| lean_str(p)).collect::<Vec<_>>().join(",\n  ")).unwrap();
    writeln!(l, "end {lean_ns}").unwrap();
    write_if_changed(&out_lean, &l);

    // ---- gen_dispatch.rs
    let mut r = String::new();
    writeln!(r, "// GENERATED by /verif/extract. Do not edit.").unwrap();
    writeln!(r, "use crate::codec::{{run_dec, run_parse, Describe}};").unwrap();
    writeln!(r, "pub fn dec(ty: &str, bytes: &[u8]) -> Option<String> {{\n    Some(match ty {{").unwrap();
    for s in &ordered {
        writeln!(r, "        {:?} => run_dec::<{}::{}>(bytes),", s.name, tyroot, s.name).unwrap();
    }
    writeln!(r, "        _ => return None,\n    }})\n}}").unwrap();
    writeln!(r, "pub fn parse(en: &str, bytes: &[u8]) -> Option<String> {{\n    Some(match en {{").unwrap();
    for e in &enums {
        writeln!(r, "        {:?} => run_parse::<zvt::{}>(bytes),", e.name, e.name).unwrap();
    }
    writeln!(r, "        _ => return None,\n    }})\n}}").unwrap();
    for e in &enums {
        writeln!(r, "impl Describe for zvt::{} {{\n    fn describe(&self) -> (usize, &'static str, String) {{\n        match self {{", e.name).unwrap();
        for (k, (v, _)) in e.variants.iter().enumerate() {
            writeln!(r, "            Self::{v}(x) => ({k}, {v:?}, format!(\"{{:?}}\", x)),").unwrap();
        }
        writeln!(r, "        }}\n    }}\n}}").unwrap();
    }
    writeln!(r, "pub fn read(en: &str, chunks: Vec<Vec<u8>>) -> Option<String> {{\n    Some(match en {{").unwrap();
    for e in &enums {
        writeln!(r, "        {:?} => crate::transport::run_read::<zvt::{}>(chunks),", e.name, e.name).unwrap();
    }
    writeln!(r, "        _ => return None,\n    }})\n}}").unwrap();
    writeln!(r, "pub fn seq(name: &str, input: &[u8], items: Vec<Vec<u8>>) -> Option<String> {{\n    Some(match name {{").unwrap();
    for s in &seqs {
        writeln!(r, "        {:?} => crate::seq::run_seq::<zvt::{}>(input, items),", s.name, s.name).unwrap();
    }
    writeln!(r, "        _ => return None,\n    }})\n}}").unwrap();
    write_if_changed(&out_rs, &r);

    println!("extract: {} structs, {} enums, {} sequences, {} error codes, {} file ids, {} problems", ordered.len(), enums.len(), seqs.len(), errors.len(), file_ids.len(), problems.len());
    for p in &problems {
        println!("problem: {p}");
    }
}

fn write_if_changed(path: &str, content: &str) {
    if let Ok(old) = std::fs::read_to_string(path) {
        if old == content {
            return;
        }
    }
    std::fs::write(path, content).unwrap();
}
