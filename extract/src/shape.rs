//! Shape of a `Sequence::into_stream` body, by evaluating it once per variant of the reply enum.
//!
//! The body of the `try_stream!` is interpreted over a small statement language (read a packet, acknowledge it, yield it,
//! break / continue / return, `let` of Boolean expressions over the packet's variant, `if`, `if let`, `match`, calls of
//! Boolean helper functions defined in the same file, logging). For every variant `V` of the reply enum the loop body must
//! perform exactly `read, acknowledge, yield` in this order; the variants after which the loop is left are the final packets.
//! Anything the interpreter does not understand is reported as an unknown shape (a broken tie, never silently accepted).
//! This makes the translation independent of how the loop is spelled (`match` with one arm per final packet, `matches!`,
//! a complement `!matches!(.., Intermediate(_))`, `if let FINALS = p { yield p; break; } yield p;`, a helper method
//! `p.ends_sequence()`, `read_packet_with_ack()` instead of `read_packet()` + `write_packet(&Ack)`, type annotations).

use quote::ToTokens;
use std::collections::HashMap;

pub fn norm(ts: impl ToTokens) -> String {
    ts.to_token_stream().to_string().chars().filter(|c| !c.is_whitespace()).collect()
}

#[derive(Clone, Debug, PartialEq)]
pub enum Ev {
    R,
    A,
    Y,
}

#[derive(Clone, Debug, PartialEq)]
pub enum Flow {
    Next,
    Break,
    Continue,
    Return,
}

/// Boolean helper functions of a file: `name` (free function) or `Type::name` (inherent method / associated function)
/// -> (name of the parameter that stands for the packet, body)
pub type Helpers = HashMap<String, (String, syn::Block)>;

pub fn collect_helpers(file: &syn::File) -> Helpers {
    let mut out = Helpers::new();
    fn returns_bool(sig: &syn::Signature) -> bool {
        matches!(&sig.output, syn::ReturnType::Type(_, t) if norm(t) == "bool")
    }
    fn param(sig: &syn::Signature) -> Option<String> {
        if sig.inputs.len() != 1 {
            return None;
        }
        match &sig.inputs[0] {
            syn::FnArg::Receiver(_) => Some("self".into()),
            syn::FnArg::Typed(t) => match &*t.pat {
                syn::Pat::Ident(i) => Some(i.ident.to_string()),
                _ => None,
            },
        }
    }
    for item in &file.items {
        match item {
            syn::Item::Fn(f) if returns_bool(&f.sig) => {
                if let Some(p) = param(&f.sig) {
                    out.insert(f.sig.ident.to_string(), (p, (*f.block).clone()));
                }
            }
            syn::Item::Impl(i) if i.trait_.is_none() => {
                let ty = match &*i.self_ty {
                    syn::Type::Path(tp) => tp.path.segments.last().map(|s| s.ident.to_string()).unwrap_or_default(),
                    _ => String::new(),
                };
                for it in &i.items {
                    if let syn::ImplItem::Fn(f) = it {
                        if returns_bool(&f.sig) {
                            if let Some(p) = param(&f.sig) {
                                out.insert(format!("{ty}::{}", f.sig.ident), (p, f.block.clone()));
                            }
                        }
                    }
                }
            }
            _ => {}
        }
    }
    out
}

struct Env<'a> {
    enum_name: &'a str, // last path segment of the reply enum: the type of the packet
    variant: &'a str,
    packet: Option<String>,
    bools: HashMap<String, bool>,
    helpers: &'a Helpers,
    rpwa_ok: bool,
    conn: &'a str, // `src` in an into_stream body, `self` inside PacketTransport
    depth: usize,
    /// closure arguments of a shared helper the `into_stream` body delegates to (`reply_stream(input, src, |p| matches!(p, ..))`):
    /// parameter name of the helper -> the closure passed for it
    closures: &'a Closures,
}

pub type Closures = HashMap<String, syn::ExprClosure>;

fn strip(e: &syn::Expr) -> &syn::Expr {
    match e {
        syn::Expr::Paren(p) => strip(&p.expr),
        syn::Expr::Reference(r) => strip(&r.expr),
        syn::Expr::Unary(u) if matches!(u.op, syn::UnOp::Deref(_)) => strip(&u.expr),
        syn::Expr::Group(g) => strip(&g.expr),
        _ => e,
    }
}

fn is_packet(e: &syn::Expr, env: &Env) -> bool {
    match strip(e) {
        syn::Expr::Path(p) => p.path.get_ident().map(|i| Some(i.to_string()) == env.packet).unwrap_or(false),
        _ => false,
    }
}

/// `X.await?` / `X.await` -> X
fn unawait(e: &syn::Expr) -> (&syn::Expr, bool) {
    match e {
        syn::Expr::Try(t) => (unawait(&t.expr).0, true),
        syn::Expr::Await(a) => (&a.base, false),
        syn::Expr::Paren(p) => unawait(&p.expr),
        _ => (e, false),
    }
}

/// is `e` (without `.await?`) a call `<conn>.<name>(args)`?
fn conn_call<'e>(e: &'e syn::Expr, conn: &str, name: &str) -> Option<&'e syn::ExprMethodCall> {
    if let syn::Expr::MethodCall(m) = e {
        if m.method == name && norm(&m.receiver) == conn {
            return Some(m);
        }
    }
    None
}

fn is_ack_value(e: &syn::Expr) -> bool {
    let s = norm(strip(e));
    s == "packets::Ack{}" || s == "Ack{}" || s == "crate::packets::Ack{}" || s == "super::packets::Ack{}"
}

/// a read of one packet: Some(true) with the acknowledgement (`read_packet_with_ack`), Some(false) without
fn read_kind(e: &syn::Expr, env: &Env) -> Option<bool> {
    let (inner, tried) = unawait(e);
    if !tried {
        return None;
    }
    if let Some(m) = conn_call(inner, env.conn, "read_packet") {
        if m.args.is_empty() {
            return Some(false);
        }
    }
    if let Some(m) = conn_call(inner, env.conn, "read_packet_with_ack") {
        if m.args.is_empty() && env.rpwa_ok {
            return Some(true);
        }
    }
    None
}

/// `<conn>.write_packet(&Ack {})` (without `.await?`)
fn is_ack_write_call(inner: &syn::Expr, env: &Env) -> bool {
    if let Some(m) = conn_call(inner, env.conn, "write_packet") {
        return m.args.len() == 1 && is_ack_value(&m.args[0]);
    }
    false
}

fn is_ack_write(e: &syn::Expr, env: &Env) -> bool {
    let (inner, tried) = unawait(e);
    tried && is_ack_write_call(inner, env)
}

fn is_log_macro(m: &syn::Macro) -> bool {
    let last = m.path.segments.last().map(|s| s.ident.to_string()).unwrap_or_default();
    matches!(last.as_str(), "debug" | "info" | "warn" | "error" | "trace" | "println" | "eprintln" | "log")
}

fn pat_matches(p: &syn::Pat, v: &str) -> Result<bool, String> {
    fn irrefutable(p: &syn::Pat) -> bool {
        match p {
            syn::Pat::Wild(_) | syn::Pat::Rest(_) => true,
            syn::Pat::Ident(i) => i.subpat.is_none(),
            syn::Pat::Reference(r) => irrefutable(&r.pat),
            syn::Pat::Paren(q) => irrefutable(&q.pat),
            _ => false,
        }
    }
    match p {
        syn::Pat::Or(o) => {
            for c in &o.cases {
                if pat_matches(c, v)? {
                    return Ok(true);
                }
            }
            Ok(false)
        }
        syn::Pat::Wild(_) => Ok(true),
        syn::Pat::Paren(q) => pat_matches(&q.pat, v),
        syn::Pat::Reference(r) => pat_matches(&r.pat, v),
        syn::Pat::Ident(i) if i.subpat.is_none() => {
            let s = i.ident.to_string();
            if s.chars().next().map(|c| c.is_lowercase() || c == '_').unwrap_or(false) {
                Ok(true) // a binding
            } else {
                Ok(s == v) // a unit-like variant brought into scope
            }
        }
        syn::Pat::TupleStruct(ts) => {
            if !ts.elems.iter().all(irrefutable) {
                return Err(format!("refutable inner pattern {}", norm(p)));
            }
            Ok(ts.path.segments.last().map(|s| s.ident == v).unwrap_or(false))
        }
        syn::Pat::Path(pp) => Ok(pp.path.segments.last().map(|s| s.ident == v).unwrap_or(false)),
        other => Err(format!("pattern {}", norm(other))),
    }
}

fn eval_bool(e: &syn::Expr, env: &mut Env) -> Result<bool, String> {
    match e {
        syn::Expr::Paren(p) => eval_bool(&p.expr, env),
        syn::Expr::Group(g) => eval_bool(&g.expr, env),
        syn::Expr::Lit(l) => match &l.lit {
            syn::Lit::Bool(b) => Ok(b.value),
            _ => Err(format!("literal {}", norm(e))),
        },
        syn::Expr::Unary(u) if matches!(u.op, syn::UnOp::Not(_)) => Ok(!eval_bool(&u.expr, env)?),
        syn::Expr::Binary(b) => match b.op {
            syn::BinOp::And(_) => Ok(eval_bool(&b.left, env)? && eval_bool(&b.right, env)?),
            syn::BinOp::Or(_) => Ok(eval_bool(&b.left, env)? || eval_bool(&b.right, env)?),
            _ => Err(format!("operator in {}", norm(e))),
        },
        syn::Expr::Path(p) => {
            let id = p.path.get_ident().map(|i| i.to_string()).unwrap_or_default();
            env.bools.get(&id).copied().ok_or_else(|| format!("unknown Boolean {}", norm(e)))
        }
        syn::Expr::Macro(m) if m.mac.path.is_ident("matches") => {
            let parsed = m.mac.parse_body_with(|ps: syn::parse::ParseStream| {
                let x: syn::Expr = ps.parse()?;
                let _: syn::Token![,] = ps.parse()?;
                let p = syn::Pat::parse_multi_with_leading_vert(ps)?;
                let _: Option<syn::Token![,]> = ps.parse()?;
                if !ps.is_empty() {
                    return Err(ps.error("guard or extra tokens"));
                }
                Ok((x, p))
            });
            let (x, p) = parsed.map_err(|_| format!("matches! arguments {}", norm(&m.mac.tokens)))?;
            if !is_packet(&x, env) {
                return Err(format!("matches! on {}", norm(&x)));
            }
            pat_matches(&p, env.variant)
        }
        syn::Expr::Match(m) => {
            if !is_packet(&m.expr, env) {
                return Err(format!("match on {}", norm(&m.expr)));
            }
            for arm in &m.arms {
                if arm.guard.is_some() {
                    return Err("guard in a Boolean match".into());
                }
                if pat_matches(&arm.pat, env.variant)? {
                    return eval_bool(&arm.body, env);
                }
            }
            Err("no arm matches".into())
        }
        syn::Expr::Block(b) if b.block.stmts.len() == 1 => match &b.block.stmts[0] {
            syn::Stmt::Expr(x, None) => eval_bool(x, env),
            _ => Err(format!("block {}", norm(e))),
        },
        syn::Expr::If(i) => {
            let c = eval_cond(&i.cond, env)?;
            if c {
                eval_bool(&syn::Expr::Block(syn::ExprBlock { attrs: vec![], label: None, block: i.then_branch.clone() }), env)
            } else {
                match &i.else_branch {
                    Some((_, x)) => eval_bool(x, env),
                    None => Err("if without else as a Boolean".into()),
                }
            }
        }
        syn::Expr::MethodCall(m) if m.args.is_empty() && is_packet(&m.receiver, env) => {
            let key = format!("{}::{}", env.enum_name, m.method);
            call_helper(&key, env)
        }
        syn::Expr::Call(c)
            if c.args.len() == 1
                && is_packet(&c.args[0], env)
                && matches!(&*c.func, syn::Expr::Path(p) if p.path.get_ident().map(|i| env.closures.contains_key(&i.to_string())).unwrap_or(false)) =>
        {
            // a closure the sequence handed to the shared helper, applied to the packet
            let syn::Expr::Path(p) = &*c.func else { unreachable!() };
            let cl = env.closures[&p.path.get_ident().unwrap().to_string()].clone();
            if cl.inputs.len() != 1 || env.depth > 4 {
                return Err("closure with other than one parameter".into());
            }
            let param = match &cl.inputs[0] {
                syn::Pat::Ident(i) => Some(i.ident.to_string()),
                syn::Pat::Wild(_) => None,
                syn::Pat::Type(t) => match &*t.pat {
                    syn::Pat::Ident(i) => Some(i.ident.to_string()),
                    syn::Pat::Wild(_) => None,
                    _ => return Err("closure parameter pattern".into()),
                },
                _ => return Err("closure parameter pattern".into()),
            };
            let mut inner = Env { enum_name: env.enum_name, variant: env.variant, packet: param, bools: HashMap::new(), helpers: env.helpers, rpwa_ok: env.rpwa_ok, conn: env.conn, depth: env.depth + 1, closures: env.closures };
            eval_bool(&cl.body, &mut inner)
        }
        syn::Expr::Call(c) if c.args.len() == 1 && is_packet(&c.args[0], env) => {
            let name = match &*c.func {
                syn::Expr::Path(p) => {
                    let segs: Vec<String> = p.path.segments.iter().map(|s| s.ident.to_string()).collect();
                    match segs.len() {
                        0 => String::new(),
                        1 => segs[0].clone(),
                        n => {
                            let ty = if segs[n - 2] == "Self" { env.enum_name.to_string() } else { segs[n - 2].clone() };
                            format!("{ty}::{}", segs[n - 1])
                        }
                    }
                }
                _ => String::new(),
            };
            call_helper(&name, env)
        }
        other => Err(format!("Boolean expression {}", norm(other))),
    }
}

fn call_helper(name: &str, env: &mut Env) -> Result<bool, String> {
    let Some((param, body)) = env.helpers.get(name).cloned() else { return Err(format!("unknown helper {name}")) };
    if env.depth > 4 {
        return Err("helper recursion".into());
    }
    let mut inner = Env { enum_name: env.enum_name, variant: env.variant, packet: Some(param), bools: HashMap::new(), helpers: env.helpers, rpwa_ok: env.rpwa_ok, conn: env.conn, depth: env.depth + 1, closures: env.closures };
    // the body: `let`s of Booleans, then a tail expression (or `return e;`)
    let n = body.stmts.len();
    for (k, s) in body.stmts.iter().enumerate() {
        match s {
            syn::Stmt::Local(l) => {
                let Some(init) = &l.init else { return Err("helper: let without value".into()) };
                let v = eval_bool(&init.expr, &mut inner)?;
                match &l.pat {
                    syn::Pat::Ident(i) => {
                        inner.bools.insert(i.ident.to_string(), v);
                    }
                    _ => return Err("helper: pattern".into()),
                }
            }
            syn::Stmt::Expr(e, None) if k + 1 == n => return eval_bool(e, &mut inner),
            syn::Stmt::Expr(syn::Expr::Return(r), _) if k + 1 == n => {
                return eval_bool(r.expr.as_ref().ok_or("helper: bare return")?, &mut inner);
            }
            other => return Err(format!("helper statement {}", norm(other))),
        }
    }
    Err("helper without value".into())
}

fn eval_cond(c: &syn::Expr, env: &mut Env) -> Result<bool, String> {
    if let syn::Expr::Let(l) = c {
        if !is_packet(&l.expr, env) {
            return Err(format!("if let on {}", norm(&l.expr)));
        }
        return pat_matches(&l.pat, env.variant);
    }
    eval_bool(c, env)
}

fn eval_expr_stmt(e: &syn::Expr, env: &mut Env, evs: &mut Vec<Ev>) -> Result<Flow, String> {
    match e {
        syn::Expr::Paren(p) => eval_expr_stmt(&p.expr, env, evs),
        syn::Expr::Tuple(t) if t.elems.is_empty() => Ok(Flow::Next),
        syn::Expr::Block(b) => eval_block(&b.block.stmts, env, evs),
        syn::Expr::Break(b) if b.expr.is_none() && b.label.is_none() => Ok(Flow::Break),
        syn::Expr::Continue(c) if c.label.is_none() => Ok(Flow::Continue),
        syn::Expr::Return(r) if r.expr.is_none() => Ok(Flow::Return),
        syn::Expr::Yield(y) => {
            let Some(x) = &y.expr else { return Err("bare yield".into()) };
            if !is_packet(x, env) || matches!(strip(x), syn::Expr::Reference(_)) {
                return Err(format!("yield of {}", norm(x)));
            }
            evs.push(Ev::Y);
            Ok(Flow::Next)
        }
        syn::Expr::Macro(m) if is_log_macro(&m.mac) => Ok(Flow::Next),
        syn::Expr::Assign(a) => {
            // `flag = <Boolean>;` for a flag declared before
            let id = match &*a.left {
                syn::Expr::Path(p) => p.path.get_ident().map(|i| i.to_string()).unwrap_or_default(),
                _ => String::new(),
            };
            if !env.bools.contains_key(&id) {
                return Err(format!("assignment to {}", norm(&a.left)));
            }
            let v = eval_bool(&a.right, env)?;
            env.bools.insert(id, v);
            Ok(Flow::Next)
        }
        syn::Expr::If(i) => {
            if eval_cond(&i.cond, env)? {
                eval_block(&i.then_branch.stmts, env, evs)
            } else {
                match &i.else_branch {
                    Some((_, x)) => eval_expr_stmt(x, env, evs),
                    None => Ok(Flow::Next),
                }
            }
        }
        syn::Expr::Match(m) => {
            if !is_packet(&m.expr, env) {
                return Err(format!("match on {}", norm(&m.expr)));
            }
            for arm in &m.arms {
                if arm.guard.is_some() {
                    return Err("guard on a match arm".into());
                }
                if pat_matches(&arm.pat, env.variant)? {
                    return eval_expr_stmt(&arm.body, env, evs);
                }
            }
            Err("no arm matches".into())
        }
        other => {
            if is_ack_write(other, env) {
                evs.push(Ev::A);
                return Ok(Flow::Next);
            }
            Err(format!("statement {}", norm(other)))
        }
    }
}

fn eval_block(stmts: &[syn::Stmt], env: &mut Env, evs: &mut Vec<Ev>) -> Result<Flow, String> {
    for s in stmts {
        let flow = match s {
            syn::Stmt::Item(syn::Item::Use(_)) => Flow::Next,
            syn::Stmt::Macro(m) if is_log_macro(&m.mac) => Flow::Next,
            syn::Stmt::Local(l) => {
                let Some(init) = &l.init else { return Err(format!("let without value {}", norm(s))) };
                if init.diverge.is_some() {
                    return Err("let-else".into());
                }
                let name = match &l.pat {
                    syn::Pat::Ident(i) => i.ident.to_string(),
                    syn::Pat::Type(t) => match &*t.pat {
                        syn::Pat::Ident(i) => i.ident.to_string(),
                        _ => return Err(format!("pattern {}", norm(&l.pat))),
                    },
                    _ => return Err(format!("pattern {}", norm(&l.pat))),
                };
                if let Some(with_ack) = read_kind(&init.expr, env) {
                    if env.packet.is_some() {
                        return Err("second read in one round".into());
                    }
                    evs.push(Ev::R);
                    if with_ack {
                        evs.push(Ev::A);
                    }
                    env.packet = Some(name);
                } else {
                    let v = eval_bool(&init.expr, env)?;
                    env.bools.insert(name, v);
                }
                Flow::Next
            }
            syn::Stmt::Expr(e, _) => eval_expr_stmt(e, env, evs)?,
            other => return Err(format!("statement {}", norm(other))),
        };
        if flow != Flow::Next {
            return Ok(flow);
        }
    }
    Ok(Flow::Next)
}

/// does `PacketTransport::read_packet_with_ack` read one packet, acknowledge it and return it?
pub fn read_packet_with_ack_ok(io: &syn::File) -> bool {
    for item in &io.items {
        if let syn::Item::Impl(i) = item {
            for it in &i.items {
                if let syn::ImplItem::Fn(f) = it {
                    if f.sig.ident == "read_packet_with_ack" {
                        return rpwa_body_ok(&f.block);
                    }
                }
            }
        }
    }
    false
}

fn rpwa_body_ok(b: &syn::Block) -> bool {
    let helpers = Helpers::new();
    let no_closures = Closures::new();
    let mut env = Env { enum_name: "", variant: "", packet: None, bools: HashMap::new(), helpers: &helpers, rpwa_ok: false, conn: "self", depth: 0, closures: &no_closures };
    let mut evs = vec![];
    let n = b.stmts.len();
    if n < 2 {
        return false;
    }
    if eval_block(&b.stmts[..n - 1], &mut env, &mut evs) != Ok(Flow::Next) {
        return false;
    }
    let Some(p) = env.packet.clone() else { return false };
    let ok_p = format!("Ok({p})");
    let syn::Stmt::Expr(tail, None) = &b.stmts[n - 1] else { return false };
    if evs == vec![Ev::R, Ev::A] {
        return norm(tail) == ok_p;
    }
    if evs != vec![Ev::R] {
        return false;
    }
    // the acknowledgement in the tail: `match self.write_packet(&Ack{}).await { Ok(()) => Ok(p), Err(e) => Err(e) }`,
    // `self.write_packet(&Ack{}).await.map(|_| p)`, `self.write_packet(&Ack{}).await?; Ok(p)` handled above
    match tail {
        syn::Expr::Match(m) => {
            let (inner, tried) = unawait(&m.expr);
            if tried || !is_ack_write_call(inner, &env) || m.arms.len() != 2 {
                return false;
            }
            let a0 = (norm(&m.arms[0].pat), norm(&m.arms[0].body));
            let a1 = norm(&m.arms[1].pat);
            let b1 = norm(&m.arms[1].body);
            let err_ok = a1.starts_with("Err(") && a1.ends_with(')') && {
                let v = &a1[4..a1.len() - 1];
                b1 == format!("Err({v})") || b1 == format!("Err({v}.into())")
            };
            (a0.0 == "Ok(())" || a0.0 == "Ok(_)") && a0.1 == ok_p && err_ok
        }
        syn::Expr::MethodCall(mc) if mc.method == "map" && mc.args.len() == 1 => {
            let (inner, tried) = unawait(&mc.receiver);
            if tried || !is_ack_write_call(inner, &env) {
                return false;
            }
            let c = norm(&mc.args[0]);
            c == format!("|_|{p}") || c == format!("|()|{p}") || c == format!("move|_|{p}") || c == format!("move|()|{p}")
        }
        _ => false,
    }
}

/// (kind, finals): kind = "once" | "loop" | "unknown:<why>"
pub fn classify(tokens: proc_macro2::TokenStream, enum_name: &str, variants: &[String], helpers: &Helpers, rpwa_ok: bool) -> (String, Vec<String>) {
    classify_in(tokens, enum_name, variants, helpers, rpwa_ok, &Closures::new(), "src", "input")
}

/// `classify` for a body that lives in a shared helper: `conn` / `input` are the helper's names for the connection and the command,
/// `closures` the closures the sequence passes for the helper's function parameters.
pub fn classify_in(tokens: proc_macro2::TokenStream, enum_name: &str, variants: &[String], helpers: &Helpers, rpwa_ok: bool, closures: &Closures, conn: &str, input: &str) -> (String, Vec<String>) {
    let block: syn::Block = match syn::parse2(quote::quote!({ #tokens })) {
        Ok(b) => b,
        Err(e) => return (format!("unknown:unparsable body {e}"), vec![]),
    };
    // leading `use` items and logging are skipped; then the command must go out and be acknowledged
    let mut stmts: Vec<&syn::Stmt> = block
        .stmts
        .iter()
        .filter(|s| !matches!(s, syn::Stmt::Item(syn::Item::Use(_))) && !matches!(s, syn::Stmt::Macro(m) if is_log_macro(&m.mac)))
        .collect();
    if stmts.is_empty() {
        return ("unknown:empty body".into(), vec![]);
    }
    let first = norm(stmts.remove(0));
    if first != format!("{conn}.write_packet_with_ack({input}).await?;") && first != format!("{conn}.write_packet_with_ack(&{input}).await?;") && first != format!("{conn}.write_packet_with_ack(&*{input}).await?;") {
        return (format!("unknown:first statement {first}"), vec![]);
    }
    if variants.is_empty() {
        return ("unknown:reply enum without variants".into(), vec![]);
    }
    let want = vec![Ev::R, Ev::A, Ev::Y];
    // Boolean flags declared in front of a loop (`let mut done = false;`)
    let mut init: HashMap<String, bool> = HashMap::new();
    while stmts.len() > 1 {
        let syn::Stmt::Local(l) = stmts[0] else { break };
        let (syn::Pat::Ident(id), Some(li)) = (&l.pat, &l.init) else { break };
        let syn::Expr::Lit(syn::ExprLit { lit: syn::Lit::Bool(b), .. }) = &*li.expr else { break };
        init.insert(id.ident.to_string(), b.value);
        stmts.remove(0);
    }
    // `loop { .. }` or `while <Boolean over the flags> { .. }` as the only remaining statement
    if stmts.len() == 1 {
        let (body, cond): (Option<&syn::Block>, Option<&syn::Expr>) = match stmts[0] {
            syn::Stmt::Expr(syn::Expr::Loop(l), _) if l.label.is_none() => (Some(&l.body), None),
            syn::Stmt::Expr(syn::Expr::While(w), _) if w.label.is_none() => (Some(&w.body), Some(&*w.cond)),
            _ => (None, None),
        };
        if let Some(body) = body {
            let mut finals = vec![];
            for v in variants {
                let mut env = Env { enum_name, variant: v, packet: None, bools: init.clone(), helpers, rpwa_ok, conn, depth: 0, closures };
                if let Some(c) = cond {
                    match eval_bool(c, &mut env) {
                        Ok(true) => {}
                        Ok(false) => return ("unknown:while loop that is never entered".into(), vec![]),
                        Err(e) => return (format!("unknown:{e}"), vec![]),
                    }
                }
                let mut evs = vec![];
                match eval_block(&body.stmts, &mut env, &mut evs) {
                    Err(e) => return (format!("unknown:{e}"), vec![]),
                    Ok(flow) => {
                        if evs != want {
                            return (format!("unknown:round for {v} is {evs:?}"), vec![]);
                        }
                        let mut is_final = flow == Flow::Break || flow == Flow::Return;
                        if !is_final {
                            if let Some(c) = cond {
                                env.packet = None; // the condition is over the flags only
                                match eval_bool(c, &mut env) {
                                    Ok(go_on) => is_final = !go_on,
                                    Err(e) => return (format!("unknown:{e}"), vec![]),
                                }
                            }
                        }
                        if is_final {
                            finals.push(v.clone());
                        } else if init.iter().any(|(k, b)| env.bools.get(k) != Some(b)) {
                            // the next round must start from the same flags, else the behaviour depends on the history
                            return (format!("unknown:flags change in a non-final round ({v})"), vec![]);
                        }
                    }
                }
            }
            if finals.is_empty() {
                return ("unknown:loop without a final packet".into(), vec![]);
            }
            if finals.len() == variants.len() {
                // every reply ends the loop: the same exchange as a body without loop
                return ("once".into(), vec![]);
            }
            return ("loop".into(), finals);
        }
    }
    if !init.is_empty() {
        return ("unknown:flags without a loop".into(), vec![]);
    }
    // no loop: exactly one reply, whatever it is
    let owned: Vec<syn::Stmt> = stmts.into_iter().cloned().collect();
    for v in variants {
        let mut env = Env { enum_name, variant: v, packet: None, bools: HashMap::new(), helpers, rpwa_ok, conn, depth: 0, closures };
        let mut evs = vec![];
        match eval_block(&owned, &mut env, &mut evs) {
            Err(e) => return (format!("unknown:{e}"), vec![]),
            Ok(flow) => {
                if evs != want || flow == Flow::Break || flow == Flow::Continue {
                    return (format!("unknown:single round for {v} is {evs:?}"), vec![]);
                }
            }
        }
    }
    ("once".into(), vec![])
}
